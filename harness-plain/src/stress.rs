//! `fvplain stress --oracle lin|agree|ledger`: free-running threads on un-instrumented flurry.
//! Calls are recorded at the client boundary and judged by the same linearizability checker,
//! the public-API agreement audit and the drop ledger as in the instrumented harness; there are
//! no hooks, no injected delays and no inspector here.
use crate::api::*;
use crate::hashers::*;
use crate::types::*;
use crate::util::*;
use crate::wgl::{self, Ev, Op};
use std::collections::BTreeMap;
use std::sync::{Arc, Barrier};

struct Cfg {
    mode: u8,
    cap: usize,
    nkeys: u64,
    prefill: u64,
    threads: usize,
    ops: usize,
    batch: usize,
    bulk: bool,
}

fn describe(c: &Cfg) -> String {
    format!("hasher {} cap {} keys {} prefill {} threads {} ops {} batch {} retain/clear {}", mode_name(c.mode), c.cap, c.nkeys, c.prefill, c.threads, c.ops, c.batch, c.bulk)
}

fn draw(rng: &mut Rng) -> Cfg {
    let shape = rng.below(4);
    let mut c = Cfg {
        mode: *rng.pick(&ALL_MODES),
        cap: *rng.pick(&[0usize, 1, 2, 16, 64]),
        nkeys: *rng.pick(&[4u64, 8, 16, 32]),
        prefill: 0,
        threads: rng.range(2, 8) as usize,
        ops: rng.range(20, 60) as usize,
        batch: *rng.pick(&[1usize, 8, 120]),
        bulk: rng.chance(1, 4),
    };
    match shape {
        0 => {
            c.mode = *rng.pick(&[UNIFORM, IDENTITY]);
            c.cap = *rng.pick(&[0usize, 1, 2]);
            c.nkeys = *rng.pick(&[48u64, 128, 200]);
        }
        1 => {
            c.mode = *rng.pick(&[CONSTANT, SAMEBIN, MIXED]);
            c.cap = 64;
            c.nkeys = *rng.pick(&[10u64, 12, 16]);
            c.prefill = rng.range(5, 9);
        }
        _ => {}
    }
    c
}

struct Round {
    history: Vec<Ev>,
    prefill: BTreeMap<u64, u64>,
    agreement: Vec<String>,
    ledger: LedgerReport,
    panics: Vec<String>,
    corrupt: Vec<String>,
}

fn run_round(c: &Cfg, seed: u64) -> Round {
    ledger().reset();
    let _ = corrupt_take();
    let map = if c.cap == 0 { Map::with_hasher(HB::new(c.mode)) } else { Map::with_capacity_and_hasher(c.cap, HB::new(c.mode)) };
    let map = Arc::new(map.with_collector(seize::Collector::new().batch_size(c.batch)));
    let mut prefill = BTreeMap::new();
    {
        let g = map.guard();
        for k in 0..c.prefill.min(c.nkeys) {
            map.insert(TKey::new(k, 0), TVal::new(k + 1), &g);
            prefill.insert(k, k + 1);
        }
    }
    let bar = Arc::new(Barrier::new(c.threads));
    let mut hs = Vec::new();
    for t in 0..c.threads {
        let (m, bar) = (map.clone(), bar.clone());
        let (nkeys, ops, bulk) = (c.nkeys, c.ops, c.bulk);
        let s = splitmix(seed ^ (t as u64 + 1) << 16);
        hs.push(std::thread::spawn(move || {
            guarded(|| {
                let mut rng = Rng::new(s);
                let mut evs = Vec::new();
                let mut ctr = 0u64;
                let g = m.guard();
                let api = Api { map: &m, facade: (t % 4) as u8, guard: &g };
                bar.wait();
                for _ in 0..ops {
                    let key = rng.below(nkeys);
                    ctr += 1;
                    let v = ((t as u64 + 1) << 32) | ctr;
                    let w = rng.below(if bulk { 104 } else { 100 });
                    let call = tick();
                    let op = match w {
                        0..=19 => Op::Get { res: api.get(key) },
                        20..=24 => Op::Contains { res: api.contains_key(key) },
                        25..=49 => Op::Insert { v, old: api.insert(key, t as u32, v) },
                        50..=59 => match api.try_insert(key, t as u32, v) {
                            Ok(_) => Op::TryInsert { v, ok: true, cur: None },
                            Err((cur, intact)) => Op::TryInsert { v, ok: false, cur: Some(if intact { cur } else { u64::MAX - 1 }) },
                        },
                        60..=79 => Op::Remove { res: api.remove(key) },
                        80..=99 => {
                            let mut out = None;
                            let variant = v % 3;
                            let r = api.compute(key, |_, cur| {
                                let o = match variant {
                                    0 => Some(v),
                                    1 => None,
                                    _ => if cur & 1 == 0 { Some(v) } else { None },
                                };
                                out = o;
                                o
                            });
                            Op::Compute { saw: if r.calls > 1 { Some(u64::MAX) } else { r.saw.map(|s| s.v) }, out, res: r.res }
                        }
                        100..=101 => {
                            let mut verdicts = Vec::new();
                            api.retain(|k, vv| {
                                let keep = k % 3 != 0;
                                if !keep {
                                    verdicts.push((k, vv, tick()));
                                }
                                keep
                            });
                            let ret = tick();
                            for (k, vv, at) in verdicts {
                                evs.push(Ev { thread: t as u16, key: k, op: Op::CondRemove { v: vv }, call: at, ret });
                            }
                            continue;
                        }
                        _ => {
                            let mut verdicts = Vec::new();
                            api.retain_force(|k, _| {
                                let keep = k % 4 != 1;
                                if !keep {
                                    verdicts.push((k, tick()));
                                }
                                keep
                            });
                            let ret = tick();
                            for (k, at) in verdicts {
                                evs.push(Ev { thread: t as u16, key: k, op: Op::ForceRemove, call: at, ret });
                            }
                            continue;
                        }
                    };
                    let ret = tick();
                    evs.push(Ev { thread: t as u16, key, op, call, ret });
                }
                evs
            })
        }));
    }
    let mut r = Round { history: Vec::new(), prefill, agreement: Vec::new(), ledger: LedgerReport::default(), panics: Vec::new(), corrupt: Vec::new() };
    for h in hs {
        match h.join() {
            Ok(Ok(e)) => r.history.extend(e),
            Ok(Err(p)) => r.panics.push(p),
            Err(_) => r.panics.push("worker died".into()),
        }
    }
    if !r.panics.is_empty() {
        std::mem::forget(map);
        return r;
    }
    {
        let g = map.guard();
        let api = Api { map: &map, facade: 0, guard: &g };
        let mut from_get = Vec::new();
        for k in 0..c.nkeys {
            let call = tick();
            let res = api.get(k);
            let ret = tick();
            r.history.push(Ev { thread: 999, key: k, op: Op::Get { res }, call, ret });
            if let Some(v) = res {
                from_get.push((k, v));
            }
            if api.contains_key(k) != res.is_some() {
                r.agreement.push(format!("contains_key({k}) disagrees with get({k}) = {:?}", res));
            }
        }
        let mut it: Vec<(u64, u64)> = api.iter().iter().map(|e| (e.k, e.v)).collect();
        it.sort();
        let mut ks: Vec<u64> = api.keys().iter().map(|x| x.0).collect();
        ks.sort();
        let mut vs = api.values();
        vs.sort();
        let mut iv: Vec<u64> = it.iter().map(|x| x.1).collect();
        iv.sort();
        if it != from_get {
            r.agreement.push(format!("iter() yields {:?} but lookups succeed for {:?}", it, from_get));
        }
        if ks != it.iter().map(|x| x.0).collect::<Vec<_>>() || vs != iv {
            r.agreement.push("keys()/values() disagree with iter()".into());
        }
        if api.len() != it.len() || api.is_empty() != it.is_empty() {
            r.agreement.push(format!("len() = {} is_empty() = {} but iteration yields {} entries", api.len(), api.is_empty(), it.len()));
        }
    }
    r.corrupt = corrupt_take();
    ledger().set_phase(1);
    match Arc::try_unwrap(map) {
        Ok(m) => {
            if let Err(p) = guarded(move || drop(m)) {
                r.panics.push(format!("dropping the map panicked: {p}"));
            }
        }
        Err(_) => r.panics.push("map still shared".into()),
    }
    r.ledger = ledger().report();
    r
}

pub fn main(args: &[String]) {
    let seed = crate::arg(args, "--seed", 1);
    let shard = crate::arg(args, "--shard", 0);
    let rounds = crate::arg(args, "--rounds", 500);
    let budget = std::time::Duration::from_millis(crate::arg(args, "--budget-ms", 30_000));
    let oracle = args.iter().position(|a| a == "--oracle").and_then(|i| args.get(i + 1)).cloned().unwrap_or_else(|| "lin".into());
    let prop = match oracle.as_str() {
        "lin" => "c01",
        "agree" => "c05",
        _ => "c04",
    };
    install_panic_capture();
    let t0 = std::time::Instant::now();
    let mut out = crate::outcome_lite::Lite::default();
    for i in 0..rounds {
        if t0.elapsed() > budget {
            break;
        }
        let rs = splitmix(seed ^ splitmix(shard << 40 ^ i) ^ 0x9141);
        let mut rng = Rng::new(rs);
        let c = draw(&mut rng);
        eprintln!("[fv] {prop}/plain stress round {i}: {}", describe(&c));
        let r = run_round(&c, rs);
        out.evaluations += 1;
        out.add("plain_rounds", 1);
        out.add("plain_calls", r.history.len() as u64);
        if !r.panics.is_empty() {
            out.violate(format!("{prop}/plain/panic"), format!("{} [round {i} of shard {shard}: {}]", r.panics.join("; "), describe(&c)));
            break;
        }
        match oracle.as_str() {
            "lin" => {
                let pre = r.prefill.clone();
                let init = move |k: u64| pre.get(&k).copied();
                let hr = wgl::check_history(&r.history, &init, 1 << 21);
                out.add("plain_key_histories_checked", hr.keys_checked);
                out.add("plain_contended_key_histories", hr.contended_keys);
                if hr.contended_keys > 0 {
                    out.distinct.push(format!("{:016x}", splitmix(rs)));
                }
                if let Some((k, h)) = hr.violation {
                    let hs = h.iter().map(|e| format!("t{}[{}..{}]{:?}", e.thread, e.call, e.ret, e.op)).collect::<Vec<_>>().join(" | ");
                    out.violate("c01/plain/not-linearizable".into(), format!("no sequential order explains the calls on key {k} (initial {:?}): {hs} [un-instrumented build, round {i} of shard {shard}: {}]", init(k), describe(&c)));
                    break;
                }
            }
            "agree" => {
                out.add("plain_quiescent_points", 1);
                out.distinct.push(format!("{:016x}", splitmix(rs)));
                if !r.agreement.is_empty() || !r.corrupt.is_empty() {
                    out.violate("c05/plain/agreement".into(), format!("after all threads joined: {} {} [un-instrumented build, round {i} of shard {shard}: {}]", r.agreement.join("; "), r.corrupt.join("; "), describe(&c)));
                    break;
                }
            }
            _ => {
                let l = &r.ledger;
                out.add("plain_instances_created", l.created_keys + l.created_vals);
                out.add("plain_drops_before_teardown", l.drops_run);
                if l.drops_run > 0 {
                    out.distinct.push(format!("{:016x}", splitmix(rs)));
                }
                if !l.errors.is_empty() || l.live != 0 {
                    out.violate("c04/plain/ledger".into(), format!("{}; {} instances never destroyed [un-instrumented build, round {i} of shard {shard}: {}]", l.errors.join("; "), l.live, describe(&c)));
                    break;
                }
            }
        }
    }
    out.print(&format!("free-running threads on flurry built without the verif feature (no hooks, no delays), oracle {oracle}; distinct = rounds with contention / audited points / early reclamation"));
}
