//! Minimal result printer compatible with the supervisor's merge.
use crate::util::Json;
use std::collections::BTreeMap;

#[derive(Default)]
pub struct Lite {
    pub evaluations: u64,
    pub counters: BTreeMap<String, u64>,
    pub distinct: Vec<String>,
    pub violations: Vec<(String, String)>,
}
impl Lite {
    pub fn add(&mut self, k: &str, n: u64) {
        *self.counters.entry(k.to_string()).or_insert(0) += n;
    }
    pub fn violate(&mut self, sig: String, detail: String) {
        self.violations.push((sig, detail));
    }
    pub fn print(&self, rule: &str) {
        let mut c = Json::obj();
        for (k, v) in &self.counters {
            c.set(k, Json::UInt(*v));
        }
        let o = Json::obj()
            .with("evaluations", Json::UInt(self.evaluations))
            .with("rule", Json::s(rule))
            .with("distinct", Json::Arr(self.distinct.iter().map(|d| Json::s(d.clone())).collect()))
            .with("samples", Json::Arr(vec![Json::s("un-instrumented free-run round")]))
            .with("counters", c)
            .with("maxes", Json::obj())
            .with("lists", Json::obj())
            .with("violations", Json::Arr(self.violations.iter().map(|(s, d)| Json::obj().with("sig", Json::s(s.clone())).with("detail", Json::s(d.clone())).with("replay", Json::obj().with("engine", Json::s("plain")))).collect()))
            .with("inconclusive", Json::Arr(vec![]));
        println!("RESULT {o}");
    }
}
