//! `fvplain hammer --seed S --shard i --rounds N --budget-ms ms`
//! Tree-bin hammer on un-instrumented flurry with a confirmed blocked-state detector (C11).
#[path = "../../harness/src/api.rs"]
#[allow(dead_code)]
mod api;
#[path = "../../harness/src/hashers.rs"]
#[allow(dead_code)]
mod hashers;
mod outcome_lite;
mod stress;
#[path = "../../harness/src/types.rs"]
#[allow(dead_code)]
mod types;
#[path = "../../harness/src/util.rs"]
#[allow(dead_code)]
mod util;
#[path = "../../harness/src/wgl.rs"]
#[allow(dead_code)]
mod wgl;

use flurry::HashMap;
use std::hash::{BuildHasher, Hasher};
use std::sync::atomic::{AtomicBool, AtomicI64, AtomicU64, Ordering};
use std::sync::Arc;

#[derive(Clone, Copy)]
struct HB(u8);
struct H(u8, u64);
impl Hasher for H {
    fn finish(&self) -> u64 {
        match self.0 {
            0 => 0,
            1 => self.1 << 32,
            _ => (self.1 / 3) << 32,
        }
    }
    fn write(&mut self, b: &[u8]) {
        for x in b {
            self.1 = self.1.wrapping_mul(131).wrapping_add(*x as u64);
        }
    }
    fn write_u64(&mut self, x: u64) {
        self.1 = x;
    }
}
impl BuildHasher for HB {
    type Hasher = H;
    fn build_hasher(&self) -> H {
        H(self.0, 0)
    }
}
type UMap = HashMap<u64, u64, HB>;

struct Rng(u64);
impl Rng {
    fn next(&mut self) -> u64 {
        self.0 ^= self.0 << 13;
        self.0 ^= self.0 >> 7;
        self.0 ^= self.0 << 17;
        self.0
    }
    fn below(&mut self, n: u64) -> u64 {
        self.next() % n.max(1)
    }
}
fn splitmix(mut z: u64) -> u64 {
    z = z.wrapping_add(0x9E37_79B9_7F4A_7C15);
    z = (z ^ (z >> 30)).wrapping_mul(0xBF58_476D_1CE4_E5B9);
    z = (z ^ (z >> 27)).wrapping_mul(0x94D0_49BB_1331_11EB);
    z ^ (z >> 31)
}
fn thread_state(tid: i64) -> char {
    let s = std::fs::read_to_string(format!("/proc/self/task/{tid}/stat")).unwrap_or_default();
    s.rsplit(')').next().and_then(|r| r.trim().chars().next()).unwrap_or('?')
}

/// Some(description) = confirmed blocked writer; Err = inconclusive
fn round(mode: u8, nkeys: u64, writers: usize, readers: usize, writer_ops: u64, seed: u64, calls: &mut (u64, u64)) -> Result<Option<String>, String> {
    let map: Arc<UMap> = Arc::new(HashMap::with_capacity_and_hasher(64, HB(mode)));
    {
        let g = map.guard();
        for k in 0..nkeys {
            map.insert(k, k, &g);
        }
    }
    let stop = Arc::new(AtomicBool::new(false));
    let n = writers + readers;
    let progress: Arc<Vec<AtomicU64>> = Arc::new((0..n).map(|_| AtomicU64::new(0)).collect());
    let tids: Arc<Vec<AtomicI64>> = Arc::new((0..n).map(|_| AtomicI64::new(0)).collect());
    let done: Arc<Vec<AtomicBool>> = Arc::new((0..writers).map(|_| AtomicBool::new(false)).collect());
    let mut hs = Vec::new();
    // `park` may return spuriously; in every other round a pest thread makes that happen all the
    // time by handing unpark tokens to the writers (stopped before the blocked-state samples)
    let writer_threads: Arc<std::sync::Mutex<Vec<std::thread::Thread>>> = Arc::new(std::sync::Mutex::new(Vec::new()));
    let pest_stop = Arc::new(AtomicBool::new(false));
    let pest_handle = if seed & 1 == 1 {
        let (wt, ps) = (writer_threads.clone(), pest_stop.clone());
        Some(std::thread::spawn(move || {
            while !ps.load(Ordering::Relaxed) {
                for t in wt.lock().unwrap().iter() {
                    t.unpark();
                }
                for _ in 0..2000 {
                    std::hint::spin_loop();
                }
            }
        }))
    } else {
        None
    };
    for w in 0..writers {
        let (m, p, t, d) = (map.clone(), progress.clone(), tids.clone(), done.clone());
        let wt = writer_threads.clone();
        hs.push(std::thread::spawn(move || {
            wt.lock().unwrap().push(std::thread::current());
            t[w].store(unsafe { libc::syscall(libc::SYS_gettid) } as i64, Ordering::SeqCst);
            let mut rng = Rng(splitmix(seed ^ (w as u64) << 20) | 1);
            for _ in 0..writer_ops {
                let g = m.guard();
                let k = rng.below(nkeys + 4);
                if rng.below(2) == 0 {
                    m.remove(&k, &g);
                } else {
                    m.insert(k, k, &g);
                }
                p[w].fetch_add(1, Ordering::Relaxed);
            }
            d[w].store(true, Ordering::SeqCst);
        }));
    }
    for r in 0..readers {
        let (m, p, t, s) = (map.clone(), progress.clone(), tids.clone(), stop.clone());
        let idx = writers + r;
        hs.push(std::thread::spawn(move || {
            t[idx].store(unsafe { libc::syscall(libc::SYS_gettid) } as i64, Ordering::SeqCst);
            let mut rng = Rng(splitmix(seed ^ (idx as u64) << 24) | 1);
            while !s.load(Ordering::Relaxed) {
                let g = m.guard();
                let _ = m.get(&rng.below(nkeys + 4), &g);
                p[idx].fetch_add(1, Ordering::Relaxed);
            }
        }));
    }
    let t0 = std::time::Instant::now();
    let mut verdict = Ok(None);
    loop {
        if done.iter().all(|d| d.load(Ordering::SeqCst)) {
            break;
        }
        if t0.elapsed().as_secs() >= 5 {
            pest_stop.store(true, Ordering::SeqCst);
        }
        if t0.elapsed().as_secs() >= 6 {
            let snap = |i: usize| (progress[i].load(Ordering::SeqCst), thread_state(tids[i].load(Ordering::SeqCst)));
            let s1: Vec<(u64, char)> = (0..n).map(snap).collect();
            std::thread::sleep(std::time::Duration::from_secs(1));
            let s2: Vec<(u64, char)> = (0..n).map(snap).collect();
            std::thread::sleep(std::time::Duration::from_secs(1));
            let s3: Vec<(u64, char)> = (0..n).map(snap).collect();
            let stuck: Vec<usize> = (0..writers)
                .filter(|&w| !done[w].load(Ordering::SeqCst) && s1[w].0 == s3[w].0 && s1[w].1 == 'S' && s2[w].1 == 'S' && s3[w].1 == 'S')
                .collect();
            // every reader completed lookups in both intervals, i.e. none of them is sitting
            // (descheduled) inside the read lock that the sleeping writer could be waiting for
            let readers_alive = readers > 0 && (writers..n).all(|i| s2[i].0 >= s1[i].0 + 3 && s3[i].0 >= s2[i].0 + 3);
            if !stuck.is_empty() && readers_alive {
                verdict = Ok(Some(format!(
                    "writer thread(s) {:?} made no progress for 8 s and are asleep (state S in three samples, {} of {} calls done) while every reader keeps completing lookups",
                    stuck, s3[stuck[0]].0, writer_ops
                )));
                break;
            }
            if t0.elapsed().as_secs() > 40 {
                verdict = Err("round did not finish within 40 s but no thread is confirmed blocked".to_string());
                break;
            }
        }
        std::thread::sleep(std::time::Duration::from_millis(2));
    }
    stop.store(true, Ordering::SeqCst);
    pest_stop.store(true, Ordering::SeqCst);
    if let Some(h) = pest_handle {
        let _ = h.join();
    }
    calls.0 += (0..writers).map(|w| progress[w].load(Ordering::SeqCst)).sum::<u64>();
    calls.1 += (writers..n).map(|r| progress[r].load(Ordering::SeqCst)).sum::<u64>();
    if matches!(verdict, Ok(None)) {
        for h in hs {
            let _ = h.join();
        }
    } else {
        std::mem::forget(map);
    }
    verdict
}

pub fn arg(args: &[String], k: &str, d: u64) -> u64 {
    args.iter().position(|a| a == k).and_then(|i| args.get(i + 1)).and_then(|s| s.parse().ok()).unwrap_or(d)
}

fn main() {
    let args: Vec<String> = std::env::args().collect();
    if args.get(1).map(|s| s.as_str()) == Some("stress") {
        stress::main(&args);
        return;
    }
    if args.get(1).map(|s| s.as_str()) != Some("hammer") {
        eprintln!("usage: fvplain hammer|stress --seed S --shard i --rounds N --budget-ms ms [--oracle lin|agree|ledger]");
        std::process::exit(2);
    }
    let seed = arg(&args, "--seed", 1);
    let shard = arg(&args, "--shard", 0);
    let rounds = arg(&args, "--rounds", 50);
    let budget = std::time::Duration::from_millis(arg(&args, "--budget-ms", 30_000));
    let ops = arg(&args, "--writer-ops", 3000);
    let t0 = std::time::Instant::now();
    let mut calls = (0u64, 0u64);
    let mut done_rounds = 0u64;
    let mut distinct = Vec::new();
    let mut violation: Option<String> = None;
    let mut inconclusive: Option<String> = None;
    for i in 0..rounds {
        if t0.elapsed() > budget {
            break;
        }
        let mut rng = Rng(splitmix(seed ^ splitmix(shard << 32 | i)) | 1);
        let mode = rng.below(3) as u8;
        let nkeys = 9 + rng.below(16);
        let writers = 1 + rng.below(3) as usize;
        let readers = 1 + rng.below(4) as usize;
        eprintln!("[fv] c11/plain hammer round {i}: hasher {mode}, {nkeys} keys, {writers} writers, {readers} readers");
        done_rounds += 1;
        distinct.push(format!("{:016x}", splitmix(mode as u64 ^ nkeys << 8 ^ (writers as u64) << 16 ^ (readers as u64) << 24 ^ i << 32)));
        match round(mode, nkeys, writers, readers, ops, rng.next(), &mut calls) {
            Ok(None) => {}
            Ok(Some(v)) => {
                violation = Some(format!("{v} [un-instrumented build; hasher {mode}, {nkeys} keys, {writers} writers, {readers} readers, round {i} of shard {shard}]"));
                break;
            }
            Err(e) => {
                inconclusive = Some(e);
                break;
            }
        }
    }
    let viol = match &violation {
        Some(v) => format!("[{{\"sig\":\"c11/plain-hammer/blocked\",\"detail\":{:?},\"replay\":{{\"check\":\"c11\",\"part\":\"plain-hammer\",\"seed\":{seed},\"shard\":{shard}}}}}]", v),
        None => "[]".to_string(),
    };
    let inc = match &inconclusive {
        Some(v) => format!("[{:?}]", v),
        None => "[]".to_string(),
    };
    println!(
        "RESULT {{\"evaluations\":{done_rounds},\"rule\":\"tree-bin hammer on flurry built without the verif feature (no hooks): 1-3 writers removing/inserting colliding keys against 1-4 readers; a writer asleep without progress over two samples while readers still complete lookups is a lost wakeup; distinct = round configurations\",\"distinct\":[{}],\"samples\":[{{\"writer_ops_per_round\":{ops}}}],\"counters\":{{\"plain_hammer_rounds\":{done_rounds},\"plain_hammer_writer_calls\":{},\"plain_hammer_reader_calls\":{}}},\"maxes\":{{}},\"lists\":{{}},\"violations\":{viol},\"inconclusive\":{inc}}}",
        distinct.iter().map(|d| format!("\"{d}\"")).collect::<Vec<_>>().join(","),
        calls.0,
        calls.1
    );
}
