use fv::hashers::HB;
use flurry::HashMap;
fn main() {
    let m: HashMap<u64, u64, HB> = HashMap::with_capacity_and_hasher(22, HB::new(5));
    let g = m.guard();
    println!("len {} ctl {:?}", m.verif_table_len(&g), m.verif_control());
    for k in [8u64, 5, 10, 15, 3] { m.insert(k, k, &g); }
    println!("len {} ctl {:?}", m.verif_table_len(&g), m.verif_control());
    m.reserve(6, &g);
    println!("after reserve(6): len {} ctl {:?}", m.verif_table_len(&g), m.verif_control());
    m.reserve(130, &g);
    println!("after reserve(130): len {} ctl {:?}", m.verif_table_len(&g), m.verif_control());
}
