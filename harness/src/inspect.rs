//! Judges a `TableDump` taken at a quiescent point: table shape (C05, C10, C14), lock state
//! (C11, C18) and the red-black / list agreement rules of tree bins (C06).
use flurry::verif::{BinDump, TableDump, TreeNodeDump};
use std::collections::{BTreeSet, HashMap as StdMap, HashSet as StdSet};

#[derive(Default, Debug, Clone)]
pub struct Audit {
    pub failures: Vec<String>,
    pub len: usize,
    pub nodes: usize,
    pub list_bins: usize,
    pub tree_bins: usize,
    pub empty_bins: usize,
    pub max_list: usize,
    pub tree_sizes: Vec<usize>,
    /// max over tree bins of height / (2*log2(n+1))
    pub max_height_ratio: f64,
    /// hash of the shapes of all tree bins (to count distinct shapes)
    pub shape_hash: u64,
}

impl Audit {
    pub fn ok(&self) -> bool {
        self.failures.is_empty()
    }
    fn fail(&mut self, s: String) {
        if self.failures.len() < 24 {
            self.failures.push(s);
        }
    }
}

pub fn log2_floor(x: usize) -> u32 {
    usize::BITS - 1 - x.max(1).leading_zeros()
}

/// Largest number of key comparisons a lookup may need in a valid red-black tree of `n` nodes:
/// height <= 2*log2(n+1), at most two comparisons (`==`, `cmp`) per level.
pub fn cmp_bound(n: usize) -> u64 {
    (4.0 * ((n + 1) as f64).log2()).floor() as u64
}

pub struct Entry<'g, K, V> {
    pub key: &'g K,
    pub value_addr: usize,
    pub value: Option<&'g V>,
    pub bin: usize,
    pub in_tree: bool,
}

/// Checks every structural rule; `hash_fn` (if given) must reproduce the map's hasher.
pub fn audit<'g, K: Ord + std::fmt::Debug, V>(
    d: &TableDump<'g, K, V>,
    hash_fn: Option<&dyn Fn(&K) -> u64>,
    public_len: usize,
    public_is_empty: bool,
) -> (Audit, Vec<Entry<'g, K, V>>) {
    let mut a = Audit::default();
    let mut entries: Vec<Entry<'g, K, V>> = Vec::new();
    a.len = d.len;
    if d.len == 0 {
        if d.table_addr != 0 {
            a.fail("table present but has zero bins".into());
        }
    } else {
        if !d.len.is_power_of_two() {
            a.fail(format!("table length {} is not a power of two", d.len));
        }
        if d.len > (1 << 30) {
            a.fail(format!("table length {} exceeds 2^30", d.len));
        }
        let expect = (d.len - (d.len >> 2)) as isize;
        if d.size_ctl != expect && d.len < (1 << 30) {
            a.fail(format!(
                "size_ctl is {} at quiescence, expected 3/4 of {} = {} (negative = still resizing/initialising)",
                d.size_ctl, d.len, expect
            ));
        }
    }
    if d.len == 0 && d.size_ctl < 0 {
        a.fail(format!("size_ctl is {} with no table", d.size_ctl));
    }
    if !d.map_next_table_null {
        a.fail("next_table is still set: half-finished resize".into());
    }
    if !d.table_next_table_null {
        a.fail("current table has a successor table recorded: forwarding state left behind".into());
    }
    // NOTE: `transfer_index` is legitimately left positive after a resize: the first claim of
    // a transfer yields i == n, which the code treats as "no more ranges", so the initiator
    // usually becomes the finisher at once and sweeps all bins without claiming further ranges.
    let mask = (d.len as u64).wrapping_sub(1);
    for (i, b) in d.bins.iter().enumerate() {
        match b {
            BinDump::Empty => a.empty_bins += 1,
            BinDump::Moved => a.fail(format!("bin {i}: forwarding marker left in the current table")),
            BinDump::BareTreeNode => a.fail(format!("bin {i}: bare tree node at the head of a bin")),
            BinDump::List { locked, nodes, malformed } => {
                a.list_bins += 1;
                a.max_list = a.max_list.max(nodes.len());
                if *malformed {
                    a.fail(format!("bin {i}: list is cyclic or contains a non-list entry"));
                }
                if *locked {
                    a.fail(format!("bin {i}: list bin lock is held at quiescence"));
                }
                for (j, n) in nodes.iter().enumerate() {
                    if n.hash & mask != i as u64 {
                        a.fail(format!("bin {i}: node {j} with hash {:#x} does not belong here", n.hash));
                    }
                    if let Some(f) = hash_fn {
                        if f(n.key) != n.hash {
                            a.fail(format!("bin {i}: node {j} stores hash {:#x} but its key {:?} hashes to {:#x}", n.hash, n.key, f(n.key)));
                        }
                    }
                    if n.value_addr == 0 {
                        a.fail(format!("bin {i}: node {j} has a null value"));
                    }
                    if j > 0 && n.locked {
                        a.fail(format!("bin {i}: node {j} (not the head) has its lock held"));
                    }
                    entries.push(Entry { key: n.key, value_addr: n.value_addr, value: n.value, bin: i, in_tree: false });
                }
            }
            BinDump::Tree { locked, lock_state, waiter_null, root, first, list, nodes, malformed, .. } => {
                a.tree_bins += 1;
                a.tree_sizes.push(list.len());
                if *malformed {
                    a.fail(format!("bin {i}: tree bin walk found a cycle or a non-tree entry"));
                }
                if *locked {
                    a.fail(format!("bin {i}: tree bin lock is held at quiescence"));
                }
                if *lock_state != 0 {
                    a.fail(format!("bin {i}: tree bin lock_state is {lock_state} at quiescence"));
                }
                if !*waiter_null {
                    a.fail(format!("bin {i}: tree bin still has a waiter registered"));
                }
                let before = a.failures.len();
                check_tree(&mut a, i, *root, *first, list, nodes);
                let _ = before;
                for n in nodes.iter() {
                    if n.node.hash & mask != i as u64 {
                        a.fail(format!("bin {i}: tree node with hash {:#x} does not belong here", n.node.hash));
                    }
                    if let Some(f) = hash_fn {
                        if f(n.node.key) != n.node.hash {
                            a.fail(format!("bin {i}: tree node stores hash {:#x} but key {:?} hashes to {:#x}", n.node.hash, n.node.key, f(n.node.key)));
                        }
                    }
                    if n.node.value_addr == 0 {
                        a.fail(format!("bin {i}: tree node has a null value"));
                    }
                }
                // entries: what the traversal list holds (that is what iterators and the
                // list fallback of lookups see)
                let idx: StdMap<usize, usize> = nodes.iter().enumerate().map(|(j, n)| (n.node.addr, j)).collect();
                for ad in list {
                    if let Some(&j) = idx.get(ad) {
                        let n = &nodes[j].node;
                        entries.push(Entry { key: n.key, value_addr: n.value_addr, value: n.value, bin: i, in_tree: true });
                    }
                }
            }
        }
    }
    a.nodes = entries.len();
    // no key twice
    {
        let mut seen: BTreeSet<&K> = BTreeSet::new();
        for e in &entries {
            if !seen.insert(e.key) {
                a.fail(format!("key {:?} is stored twice", e.key));
            }
        }
    }
    if d.count != a.nodes as isize {
        a.fail(format!("element counter is {} but the table holds {} entries", d.count, a.nodes));
    }
    if public_len != a.nodes {
        a.fail(format!("len() = {} but the table holds {} entries", public_len, a.nodes));
    }
    if public_is_empty != (a.nodes == 0) {
        a.fail(format!("is_empty() = {} but the table holds {} entries", public_is_empty, a.nodes));
    }
    (a, entries)
}

fn check_tree<K: Ord + std::fmt::Debug, V>(
    a: &mut Audit,
    bin: usize,
    root: usize,
    first: usize,
    list: &[usize],
    nodes: &[TreeNodeDump<'_, K, V>],
) {
    let idx: StdMap<usize, usize> = nodes.iter().enumerate().map(|(j, n)| (n.node.addr, j)).collect();
    let n = list.len();
    if root == 0 || first == 0 {
        if !(root == 0 && first == 0 && nodes.is_empty()) {
            a.fail(format!("bin {bin}: tree bin has root={root:#x} first={first:#x} with {} nodes", nodes.len()));
        } else {
            a.fail(format!("bin {bin}: empty tree bin left in the table"));
        }
        return;
    }
    // ---- traversal list ----
    if list.first() != Some(&first) {
        a.fail(format!("bin {bin}: list does not start at `first`"));
    }
    for (p, w) in list.iter().enumerate() {
        let Some(&j) = idx.get(w) else {
            a.fail(format!("bin {bin}: list node missing from dump"));
            continue;
        };
        let nd = &nodes[j];
        let want_prev = if p == 0 { 0 } else { list[p - 1] };
        if nd.prev != want_prev {
            a.fail(format!("bin {bin}: list node {p} (key {:?}) has prev {:#x}, expected {:#x}", nd.node.key, nd.prev, want_prev));
        }
        let want_next = if p + 1 < list.len() { list[p + 1] } else { 0 };
        if nd.next != want_next {
            a.fail(format!("bin {bin}: list node {p} next link inconsistent"));
        }
    }
    // ---- tree ----
    let Some(&rj) = idx.get(&root) else {
        a.fail(format!("bin {bin}: root not among the nodes"));
        return;
    };
    if nodes[rj].parent != 0 {
        a.fail(format!("bin {bin}: root has a parent"));
    }
    if nodes[rj].red {
        a.fail(format!("bin {bin}: root is red"));
    }
    // iterative in-order traversal with black-height computation
    let mut in_tree: StdSet<usize> = StdSet::new();
    let mut inorder: Vec<usize> = Vec::new();
    let mut height = 0usize;
    let mut black_heights: StdSet<usize> = StdSet::new();
    let mut shape = crate::util::FNV_OFFSET;
    // stack of (addr, depth, blacks, state)
    let mut stack: Vec<(usize, usize, usize, u8)> = vec![(root, 1, 0, 0)];
    let mut guard_steps = 0usize;
    while let Some((ad, depth, blacks, st)) = stack.pop() {
        guard_steps += 1;
        if guard_steps > 8 * nodes.len() + 16 {
            a.fail(format!("bin {bin}: tree traversal does not terminate (cycle)"));
            break;
        }
        let Some(&j) = idx.get(&ad) else {
            a.fail(format!("bin {bin}: tree link to unknown node {ad:#x}"));
            continue;
        };
        let nd = &nodes[j];
        let b = blacks + if nd.red { 0 } else { 1 };
        match st {
            0 => {
                if !in_tree.insert(ad) {
                    a.fail(format!("bin {bin}: node {:?} reachable twice in the tree", nd.node.key));
                    continue;
                }
                height = height.max(depth);
                shape = crate::util::fnv(shape, (depth as u64) << 1 | nd.red as u64);
                for (c, name) in [(nd.left, "left"), (nd.right, "right")] {
                    if c != 0 {
                        match idx.get(&c) {
                            Some(&cj) => {
                                if nodes[cj].parent != ad {
                                    a.fail(format!("bin {bin}: {name} child of {:?} has parent link {:#x}, expected {:#x}", nd.node.key, nodes[cj].parent, ad));
                                }
                                if nd.red && nodes[cj].red {
                                    a.fail(format!("bin {bin}: red node {:?} has a red {name} child", nd.node.key));
                                }
                            }
                            None => a.fail(format!("bin {bin}: {name} child of {:?} is not a known node", nd.node.key)),
                        }
                    } else {
                        black_heights.insert(b);
                    }
                }
                stack.push((ad, depth, blacks, 1));
                if nd.left != 0 {
                    stack.push((nd.left, depth + 1, b, 0));
                }
            }
            _ => {
                inorder.push(j);
                if nd.right != 0 {
                    stack.push((nd.right, depth + 1, b, 0));
                }
            }
        }
    }
    if black_heights.len() > 1 {
        a.fail(format!("bin {bin}: unequal black heights {:?}", black_heights));
    }
    for w in inorder.windows(2) {
        let (x, y) = (&nodes[w[0]].node, &nodes[w[1]].node);
        let ord = x.hash.cmp(&y.hash).then_with(|| x.key.cmp(y.key));
        if ord != std::cmp::Ordering::Less {
            a.fail(format!("bin {bin}: in-order traversal not strictly increasing at {:?} / {:?}", x.key, y.key));
        }
    }
    let on_list: StdSet<usize> = list.iter().copied().collect();
    if on_list != in_tree {
        let only_list = on_list.difference(&in_tree).count();
        let only_tree = in_tree.difference(&on_list).count();
        a.fail(format!("bin {bin}: traversal list and tree disagree ({only_list} only on the list, {only_tree} only in the tree)"));
    }
    let bound = 2.0 * ((n + 1) as f64).log2();
    if n > 0 {
        let ratio = height as f64 / bound.max(1.0);
        if ratio > a.max_height_ratio {
            a.max_height_ratio = ratio;
        }
        if height as f64 > bound + 1e-9 {
            a.fail(format!("bin {bin}: tree height {height} exceeds 2*log2({}+1) = {bound:.2}", n));
        }
    }
    a.shape_hash = crate::util::fnv(a.shape_hash, shape);
}


/// Self-test of the red-black checker on hand-made tree dumps (one valid, several broken).
pub fn selftest() -> Vec<String> {
    use flurry::verif::NodeDump;
    let mut fails = Vec::new();
    static KEYS: [u64; 8] = [0, 1, 2, 3, 4, 5, 6, 7];
    static VAL: u64 = 0;
    // a 3-node tree: 2 (black root) with children 1 and 3 (red); list order 2 -> 1 -> 3
    let mk = |red_root: bool, swap_order: bool, bad_parent: bool, drop_from_list: bool, red_red: bool| -> Audit {
        let nd = |addr: usize, k: usize| NodeDump { addr, hash: 0, key: &KEYS[k], value_addr: 0x9000, value: Some(&VAL), locked: false };
        let (lk, rk) = if swap_order { (3, 1) } else { (1, 3) };
        let mut nodes = vec![
            TreeNodeDump { node: nd(0x20, 2), parent: 0, left: 0x10, right: 0x30, prev: 0, next: 0x10, red: red_root },
            TreeNodeDump { node: nd(0x10, lk), parent: if bad_parent { 0x30 } else { 0x20 }, left: 0, right: 0, prev: 0x20, next: if drop_from_list { 0 } else { 0x30 }, red: true },
            TreeNodeDump { node: nd(0x30, rk), parent: 0x20, left: 0, right: 0, prev: 0x10, next: 0, red: true },
        ];
        let mut list = vec![0x20, 0x10, 0x30];
        if drop_from_list {
            list.pop();
        }
        if red_red {
            // hang a red child under the red node 1
            nodes[1].left = 0x05;
            nodes.push(TreeNodeDump { node: nd(0x05, 0), parent: 0x10, left: 0, right: 0, prev: 0x30, next: 0, red: true });
            nodes[2].next = 0x05;
            list.push(0x05);
        }
        let mut a = Audit::default();
        check_tree(&mut a, 0, 0x20, 0x20, &list, &nodes);
        a
    };
    if !mk(false, false, false, false, false).ok() {
        fails.push(format!("tree selftest: a valid tree was rejected: {:?}", mk(false, false, false, false, false).failures));
    }
    for (name, a) in [
        ("red root", mk(true, false, false, false, false)),
        ("order violated", mk(false, true, false, false, false)),
        ("wrong parent link", mk(false, false, true, false, false)),
        ("node missing from the list", mk(false, false, false, true, false)),
        ("red node with red child", mk(false, false, false, false, true)),
    ] {
        if a.ok() {
            fails.push(format!("tree selftest: broken tree ({name}) was accepted"));
        }
    }
    fails
}
