//! Runtime-monitoring harness for jonhoo/flurry (see /verif/DESIGN.md).
pub mod api;
pub mod freerun;
pub mod hashers;
pub mod hook;
pub mod inspect;
pub mod orch;
pub mod outcome;
pub mod seq;
pub mod serial;
pub mod types;
pub mod util;
pub mod wgl;
pub mod checks;
