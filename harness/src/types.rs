//! Instrumented key / value types and the drop ledger.
//!
//! Every `TKey` / `TVal` instance (including the clones the map makes) carries a unique id that
//! is registered in a global ledger: state Live -> Dropped. A drop of an id that is not Live is
//! a double drop, a Live id after teardown is a leak, a drop while a reader holds a lease on the
//! id is "destroyed while a guard that observed it is alive".
use std::borrow::Borrow;
use std::cell::Cell;
use std::cmp::Ordering as CmpOrd;
use std::hash::{Hash, Hasher};
use std::sync::atomic::{AtomicBool, AtomicU32, AtomicU64, AtomicU8, Ordering};
use std::sync::{Mutex, OnceLock};

#[cfg(not(miri))]
pub const LEDGER_CAP: usize = 1 << 23;
#[cfg(miri)]
pub const LEDGER_CAP: usize = 1 << 12;

const LIVE_KEY: u8 = 1;
const LIVE_VAL: u8 = 2;
const DROPPED: u8 = 0x80;

const VAL_MAGIC: u64 = 0x5EED_0F_F1_0C_C0_FFEE;
const KEY_MAGIC: u64 = 0xA11_C0DE_D00D_F00D;
const TOMB: u64 = 0xDEAD_DEAD_DEAD_DEAD;

pub struct Ledger {
    states: Vec<AtomicU8>,
    leases: Vec<AtomicU32>,
    next: AtomicU64,
    enabled: AtomicBool,
    /// 0 = workload running, 1 = teardown (map / collector being dropped)
    phase: AtomicU8,
    pub created_keys: AtomicU64,
    pub created_vals: AtomicU64,
    pub drops_run: AtomicU64,
    pub drops_teardown: AtomicU64,
    pub untracked: AtomicU64,
    errors: Mutex<Vec<String>>,
}

static LEDGER: OnceLock<Ledger> = OnceLock::new();

pub fn ledger() -> &'static Ledger {
    LEDGER.get_or_init(|| Ledger {
        states: (0..LEDGER_CAP).map(|_| AtomicU8::new(0)).collect(),
        leases: (0..LEDGER_CAP).map(|_| AtomicU32::new(0)).collect(),
        next: AtomicU64::new(1),
        enabled: AtomicBool::new(true),
        phase: AtomicU8::new(0),
        created_keys: AtomicU64::new(0),
        created_vals: AtomicU64::new(0),
        drops_run: AtomicU64::new(0),
        drops_teardown: AtomicU64::new(0),
        untracked: AtomicU64::new(0),
        errors: Mutex::new(Vec::new()),
    })
}

#[derive(Clone, Debug, Default)]
pub struct LedgerReport {
    pub created_keys: u64,
    pub created_vals: u64,
    pub drops_run: u64,
    pub drops_teardown: u64,
    pub live: u64,
    pub untracked: u64,
    pub errors: Vec<String>,
    pub live_ids: Vec<u64>,
}

impl Ledger {
    /// Tracking off: ids are still handed out but nothing is remembered (used for leak-detector
    /// runs, where an address/ID-remembering monitor would be pointless, and for speed).
    pub fn set_enabled(&self, on: bool) {
        self.enabled.store(on, Ordering::SeqCst);
    }
    pub fn enabled(&self) -> bool {
        self.enabled.load(Ordering::Relaxed)
    }
    pub fn set_phase(&self, p: u8) {
        self.phase.store(p, Ordering::SeqCst);
    }
    /// Forget everything; only call while no instrumented object is alive.
    pub fn reset(&self) {
        let n = (self.next.load(Ordering::SeqCst) as usize).min(LEDGER_CAP);
        for i in 0..n {
            self.states[i].store(0, Ordering::Relaxed);
            self.leases[i].store(0, Ordering::Relaxed);
        }
        self.next.store(1, Ordering::SeqCst);
        self.phase.store(0, Ordering::SeqCst);
        for c in [
            &self.created_keys,
            &self.created_vals,
            &self.drops_run,
            &self.drops_teardown,
            &self.untracked,
        ] {
            c.store(0, Ordering::SeqCst);
        }
        self.errors.lock().unwrap().clear();
    }
    fn error(&self, s: String) {
        let mut e = self.errors.lock().unwrap();
        if e.len() < 64 {
            e.push(s);
        }
    }
    fn register(&self, kind: u8) -> u64 {
        let id = self.next.fetch_add(1, Ordering::Relaxed);
        if kind == LIVE_KEY {
            self.created_keys.fetch_add(1, Ordering::Relaxed);
        } else {
            self.created_vals.fetch_add(1, Ordering::Relaxed);
        }
        if !self.enabled() {
            return id;
        }
        if (id as usize) < LEDGER_CAP {
            self.states[id as usize].store(kind, Ordering::Relaxed);
        } else {
            self.untracked.fetch_add(1, Ordering::Relaxed);
        }
        id
    }
    fn on_drop(&self, id: u64, kind: u8, what: &str) {
        if self.phase.load(Ordering::Relaxed) == 0 {
            self.drops_run.fetch_add(1, Ordering::Relaxed);
        } else {
            self.drops_teardown.fetch_add(1, Ordering::Relaxed);
        }
        if !self.enabled() {
            return;
        }
        if id == 0 || id >= self.next.load(Ordering::Relaxed) {
            self.error(format!("drop of {what} with unknown id {id:#x} (corrupted or freed memory)"));
            return;
        }
        if (id as usize) >= LEDGER_CAP {
            return;
        }
        let prev = self.states[id as usize].swap(kind | DROPPED, Ordering::Relaxed);
        if prev & DROPPED != 0 {
            self.error(format!("double drop of {what} id {id}"));
        } else if prev != kind {
            self.error(format!("drop of {what} id {id} whose ledger state is {prev}"));
        }
        let l = self.leases[id as usize].load(Ordering::SeqCst);
        if l != 0 {
            self.error(format!(
                "{what} id {id} destroyed while {l} guard(s) that observed it are still alive"
            ));
        }
    }
    /// A reader that obtained a reference to `id` under a guard registers a lease and must
    /// release it strictly before that guard is dropped or refreshed.
    pub fn lease(&self, id: u64) {
        if self.enabled() && (id as usize) < LEDGER_CAP {
            self.leases[id as usize].fetch_add(1, Ordering::SeqCst);
        }
    }
    pub fn release(&self, id: u64) {
        if self.enabled() && (id as usize) < LEDGER_CAP {
            self.leases[id as usize].fetch_sub(1, Ordering::SeqCst);
        }
    }
    pub fn is_live(&self, id: u64) -> Option<bool> {
        if !self.enabled() || (id as usize) >= LEDGER_CAP {
            return None;
        }
        let s = self.states[id as usize].load(Ordering::Relaxed);
        Some(s == LIVE_KEY || s == LIVE_VAL)
    }
    pub fn report(&self) -> LedgerReport {
        let n = (self.next.load(Ordering::SeqCst) as usize).min(LEDGER_CAP);
        let mut live = 0;
        let mut live_ids = Vec::new();
        if self.enabled() {
            for i in 1..n {
                let s = self.states[i].load(Ordering::Relaxed);
                if s == LIVE_KEY || s == LIVE_VAL {
                    live += 1;
                    if live_ids.len() < 8 {
                        live_ids.push(i as u64);
                    }
                }
            }
        }
        LedgerReport {
            created_keys: self.created_keys.load(Ordering::SeqCst),
            created_vals: self.created_vals.load(Ordering::SeqCst),
            drops_run: self.drops_run.load(Ordering::SeqCst),
            drops_teardown: self.drops_teardown.load(Ordering::SeqCst),
            live,
            untracked: self.untracked.load(Ordering::SeqCst),
            errors: self.errors.lock().unwrap().clone(),
            live_ids,
        }
    }
}

thread_local! {
    /// number of key comparisons (`==` and `cmp`) performed on this thread
    static CMPS: Cell<u64> = const { Cell::new(0) };
    /// integrity failures seen on this thread (corrupt key/value observed through a reference)
    static CORRUPT: Cell<u64> = const { Cell::new(0) };
}
static CORRUPT_TOTAL: AtomicU64 = AtomicU64::new(0);
static CORRUPT_MSG: Mutex<Vec<String>> = Mutex::new(Vec::new());

pub fn cmp_count() -> u64 {
    CMPS.with(|c| c.get())
}
pub fn cmp_reset() {
    CMPS.with(|c| c.set(0));
}
#[inline]
fn cmp_inc() {
    let _ = CMPS.try_with(|c| c.set(c.get() + 1));
}
fn corrupt(msg: String) {
    CORRUPT_TOTAL.fetch_add(1, Ordering::SeqCst);
    let mut m = CORRUPT_MSG.lock().unwrap();
    if m.len() < 32 {
        m.push(msg);
    }
}
pub fn corrupt_take() -> Vec<String> {
    CORRUPT_TOTAL.store(0, Ordering::SeqCst);
    std::mem::take(&mut *CORRUPT_MSG.lock().unwrap())
}
pub fn corrupt_count() -> u64 {
    CORRUPT_TOTAL.load(Ordering::SeqCst)
}

/// Lookup key: `TKey: Borrow<KQ>`, so lookups do not create ledger entries.
#[repr(transparent)]
#[derive(Debug, Clone, Copy)]
pub struct KQ(pub u64);
impl PartialEq for KQ {
    fn eq(&self, o: &KQ) -> bool {
        cmp_inc();
        self.0 == o.0
    }
}
impl Eq for KQ {}
impl PartialOrd for KQ {
    fn partial_cmp(&self, o: &KQ) -> Option<CmpOrd> {
        Some(self.cmp(o))
    }
}
impl Ord for KQ {
    fn cmp(&self, o: &KQ) -> CmpOrd {
        cmp_inc();
        self.0.cmp(&o.0)
    }
}
impl Hash for KQ {
    fn hash<Hh: Hasher>(&self, h: &mut Hh) {
        h.write_u64(self.0)
    }
}

#[repr(C)]
#[derive(Debug)]
pub struct TKey {
    pub k: u64,
    pub id: u64,
    /// tag of the instance this key was cloned from; not part of Eq/Ord/Hash
    pub origin: u32,
    chk: u64,
}
impl TKey {
    pub fn new(k: u64, origin: u32) -> TKey {
        let id = ledger().register(LIVE_KEY);
        TKey {
            k,
            id,
            origin,
            chk: k ^ id ^ KEY_MAGIC,
        }
    }
    /// Verifies that the memory behind this reference still holds the key that was created.
    pub fn verify(&self) -> bool {
        let (k, id, chk) = (self.k, self.id, self.chk);
        if chk != k ^ id ^ KEY_MAGIC {
            corrupt(format!(
                "key reference reads k={k:#x} id={id:#x} chk={chk:#x}{}",
                if chk == TOMB { " (tombstone: already dropped)" } else { "" }
            ));
            return false;
        }
        true
    }
}
impl Clone for TKey {
    fn clone(&self) -> TKey {
        self.verify();
        TKey::new(self.k, self.origin)
    }
}
impl Drop for TKey {
    fn drop(&mut self) {
        ledger().on_drop(self.id, LIVE_KEY, "key");
        self.chk = TOMB;
    }
}
impl Borrow<KQ> for TKey {
    fn borrow(&self) -> &KQ {
        // safety: KQ is repr(transparent) over u64 and `k` is a u64 field
        unsafe { &*(&self.k as *const u64 as *const KQ) }
    }
}
impl PartialEq for TKey {
    fn eq(&self, o: &TKey) -> bool {
        cmp_inc();
        self.k == o.k
    }
}
impl Eq for TKey {}
impl PartialOrd for TKey {
    fn partial_cmp(&self, o: &TKey) -> Option<CmpOrd> {
        Some(self.cmp(o))
    }
}
impl Ord for TKey {
    fn cmp(&self, o: &TKey) -> CmpOrd {
        cmp_inc();
        self.k.cmp(&o.k)
    }
}
impl Hash for TKey {
    fn hash<Hh: Hasher>(&self, h: &mut Hh) {
        h.write_u64(self.k)
    }
}

#[repr(C)]
#[derive(Debug)]
pub struct TVal {
    pub v: u64,
    pub id: u64,
    chk: u64,
}
impl TVal {
    pub fn new(v: u64) -> TVal {
        let id = ledger().register(LIVE_VAL);
        TVal {
            v,
            id,
            chk: v ^ id ^ VAL_MAGIC,
        }
    }
    pub fn verify(&self) -> bool {
        let (v, id, chk) = (self.v, self.id, self.chk);
        if chk != v ^ id ^ VAL_MAGIC {
            corrupt(format!(
                "value reference reads v={v:#x} id={id:#x} chk={chk:#x}{}",
                if chk == TOMB { " (tombstone: already dropped)" } else { "" }
            ));
            return false;
        }
        true
    }
    /// the payload, verified
    pub fn get(&self) -> u64 {
        self.verify();
        self.v
    }
}
impl Clone for TVal {
    fn clone(&self) -> TVal {
        self.verify();
        TVal::new(self.v)
    }
}
impl PartialEq for TVal {
    fn eq(&self, o: &TVal) -> bool {
        self.v == o.v
    }
}
impl Eq for TVal {}
impl Drop for TVal {
    fn drop(&mut self) {
        ledger().on_drop(self.id, LIVE_VAL, "value");
        self.chk = TOMB;
    }
}


/// Self-test of the ledger: a double drop, a leak and a drop under a lease must be reported.
pub fn selftest_ledger() -> Vec<String> {
    let mut fails = Vec::new();
    let l = ledger();
    l.reset();
    {
        let v = TVal::new(7);
        // safety: TVal owns no heap memory; duplicating it only makes its Drop run twice
        let dup = unsafe { std::ptr::read(&v) };
        drop(v);
        drop(dup);
    }
    if !l.report().errors.iter().any(|e| e.contains("double drop")) {
        fails.push("ledger selftest: a double drop was not reported".into());
    }
    l.reset();
    let leaked = TKey::new(1, 0);
    std::mem::forget(leaked);
    if l.report().live != 1 {
        fails.push("ledger selftest: a leaked instance was not reported".into());
    }
    l.reset();
    {
        let v = TVal::new(9);
        l.lease(v.id);
        drop(v);
    }
    if !l.report().errors.iter().any(|e| e.contains("still alive")) {
        fails.push("ledger selftest: a drop under a lease was not reported".into());
    }
    l.reset();
    fails
}
