//! One call surface over the four public facades of `HashMap` (guard per call, one long-lived
//! guard, `pin()`, `with_guard`). Every method turns the references it gets back into owned
//! numbers immediately (after verifying the integrity of what they point to), so callers can
//! record results without lifetimes.
use crate::hashers::HB;
use crate::types::{TKey, TVal, KQ};
use flurry::{Guard, HashMap};

pub type Map = HashMap<TKey, TVal, HB>;

pub const FACADE_GUARD_PER_OP: u8 = 0;
pub const FACADE_LONG_GUARD: u8 = 1;
pub const FACADE_PIN: u8 = 2;
pub const FACADE_WITH_GUARD: u8 = 3;

pub struct Api<'m> {
    pub map: &'m Map,
    pub facade: u8,
    /// used by facades 1 and 3
    pub guard: &'m Guard<'m>,
}

macro_rules! via {
    ($s:expr, |$m:ident, $g:ident| $guarded:expr, |$r:ident| $reffed:expr) => {
        match $s.facade {
            0 => {
                let gg = $s.map.guard();
                let $g = &gg;
                let $m = $s.map;
                $guarded
            }
            1 => {
                let $g = $s.guard;
                let $m = $s.map;
                $guarded
            }
            2 => {
                let rr = $s.map.pin();
                let $r = &rr;
                $reffed
            }
            _ => {
                let rr = $s.map.with_guard($s.guard);
                let $r = &rr;
                $reffed
            }
        }
    };
}

#[derive(Clone, Copy, Debug, PartialEq, Eq)]
pub struct KV {
    pub k: u64,
    pub origin: u32,
    pub v: u64,
}

fn kv(k: &TKey, v: &TVal) -> KV {
    k.verify();
    KV { k: k.k, origin: k.origin, v: v.get() }
}

#[derive(Clone, Copy, Debug, PartialEq, Eq)]
pub struct ComputeResult {
    /// value handed to the closure (None = closure not called)
    pub saw: Option<KV>,
    pub calls: u32,
    pub res: Option<u64>,
}

impl<'m> Api<'m> {
    pub fn insert(&self, k: u64, origin: u32, v: u64) -> Option<u64> {
        let key = TKey::new(k, origin);
        let val = TVal::new(v);
        via!(self, |m, g| m.insert(key, val, g).map(|o| o.get()), |r| r.insert(key, val).map(|o| o.get()))
    }
    /// Ok(()) = inserted; Err((current, returned value intact?))
    pub fn try_insert(&self, k: u64, origin: u32, v: u64) -> Result<u64, (u64, bool)> {
        let key = TKey::new(k, origin);
        let val = TVal::new(v);
        let id = val.id;
        via!(
            self,
            |m, g| match m.try_insert(key, val, g) {
                Ok(n) => Ok(n.get()),
                Err(e) => Err((e.current.get(), e.not_inserted.verify() && e.not_inserted.v == v && e.not_inserted.id == id)),
            },
            |r| match r.try_insert(key, val) {
                Ok(n) => Ok(n.get()),
                Err(e) => Err((e.current.get(), e.not_inserted.verify() && e.not_inserted.v == v && e.not_inserted.id == id)),
            }
        )
    }
    pub fn get(&self, k: u64) -> Option<u64> {
        via!(self, |m, g| m.get(&KQ(k), g).map(|o| o.get()), |r| r.get(&KQ(k)).map(|o| o.get()))
    }
    /// lookup through `&TKey` instead of the borrowed form
    pub fn get_by_key(&self, k: u64) -> Option<u64> {
        let key = TKey::new(k, u32::MAX);
        via!(self, |m, g| m.get(&key, g).map(|o| o.get()), |r| r.get(&key).map(|o| o.get()))
    }
    pub fn get_key_value(&self, k: u64) -> Option<KV> {
        via!(
            self,
            |m, g| m.get_key_value(&KQ(k), g).map(|(a, b)| kv(a, b)),
            |r| r.get_key_value(&KQ(k)).map(|(a, b)| kv(a, b))
        )
    }
    pub fn contains_key(&self, k: u64) -> bool {
        via!(self, |m, g| m.contains_key(&KQ(k), g), |r| r.contains_key(&KQ(k)))
    }
    pub fn remove(&self, k: u64) -> Option<u64> {
        via!(self, |m, g| m.remove(&KQ(k), g).map(|o| o.get()), |r| r.remove(&KQ(k)).map(|o| o.get()))
    }
    pub fn remove_entry(&self, k: u64) -> Option<KV> {
        via!(
            self,
            |m, g| m.remove_entry(&KQ(k), g).map(|(a, b)| kv(a, b)),
            |r| r.remove_entry(&KQ(k)).map(|(a, b)| kv(a, b))
        )
    }
    /// `f(key, current) -> Some(new payload)` or `None` to remove
    pub fn compute(&self, k: u64, mut f: impl FnMut(u64, u64) -> Option<u64>) -> ComputeResult {
        let mut saw = None;
        let mut calls = 0u32;
        let clo = |kk: &TKey, vv: &TVal| {
            calls += 1;
            saw = Some(kv(kk, vv));
            f(kk.k, vv.v).map(TVal::new)
        };
        let res = via!(
            self,
            |m, g| m.compute_if_present(&KQ(k), clo, g).map(|o| o.get()),
            |r| r.compute_if_present(&KQ(k), clo).map(|o| o.get())
        );
        ComputeResult { saw, calls, res }
    }
    pub fn retain(&self, mut f: impl FnMut(u64, u64) -> bool) {
        let clo = |kk: &TKey, vv: &TVal| {
            kk.verify();
            f(kk.k, vv.get())
        };
        via!(self, |m, g| m.retain(clo, g), |r| r.retain(clo))
    }
    pub fn retain_force(&self, mut f: impl FnMut(u64, u64) -> bool) {
        let clo = |kk: &TKey, vv: &TVal| {
            kk.verify();
            f(kk.k, vv.get())
        };
        via!(self, |m, g| m.retain_force(clo, g), |r| r.retain_force(clo))
    }
    pub fn clear(&self) {
        via!(self, |m, g| m.clear(g), |r| r.clear())
    }
    pub fn reserve(&self, n: usize) {
        via!(self, |m, g| m.reserve(n, g), |r| r.reserve(n))
    }
    pub fn len(&self) -> usize {
        via!(self, |m, _g| m.len(), |r| r.len())
    }
    pub fn is_empty(&self) -> bool {
        via!(self, |m, _g| m.is_empty(), |r| r.is_empty())
    }
    pub fn iter(&self) -> Vec<KV> {
        via!(
            self,
            |m, g| m.iter(g).map(|(a, b)| kv(a, b)).collect(),
            |r| r.iter().map(|(a, b)| kv(a, b)).collect()
        )
    }
    pub fn keys(&self) -> Vec<(u64, u32)> {
        via!(
            self,
            |m, g| m.keys(g).map(|a| { a.verify(); (a.k, a.origin) }).collect(),
            |r| r.keys().map(|a| { a.verify(); (a.k, a.origin) }).collect()
        )
    }
    pub fn values(&self) -> Vec<u64> {
        via!(self, |m, g| m.values(g).map(|b| b.get()).collect(), |r| r.values().map(|b| b.get()).collect())
    }
}
