//! Serialised token-passing scheduler.
//!
//! All threads of a small program are real OS threads, but only the holder of a token runs; at
//! every hook site the handler may hand the token to another thread (seeded random walk, or an
//! exact replay of recorded decisions). Blocking is made visible instead of blocking the OS
//! thread: `BEFORE_LOCK` polls `Mutex::is_locked()` and passes the token while the lock is held,
//! `PRE_PARK` waits for the matching `AFTER_UNPARK`, spin loops have a yield site. "Every
//! unfinished thread is waiting" is a deadlock verdict, exceeding the step budget a livelock
//! verdict; both are logical, not timed.
use flurry::verif as fvf;
use std::cell::Cell;
use std::sync::{Condvar, Mutex, MutexGuard};
use std::thread::ThreadId;

#[derive(Clone, Copy, PartialEq, Eq, Debug)]
pub enum St {
    Runnable,
    /// polled a held lock and has not been rescheduled since a lock holder made progress
    LockWait,
    Parked,
    Finished,
}

#[derive(Clone, Debug, PartialEq, Eq)]
pub enum Verdict {
    Completed,
    Deadlock(String),
    Livelock(String),
    Panicked(String),
}

pub struct Sched {
    cur: usize,
    st: Vec<St>,
    ids: Vec<Option<ThreadId>>,
    pending_unpark: Vec<bool>,
    /// threads in LockWait that already polled since the last progress of anybody else
    polled: Vec<bool>,
    rng: u64,
    pub steps: u64,
    pub switches: u64,
    pub budget: u64,
    switch_den: u64,
    pub trace_hash: u64,
    pub decisions: Vec<u8>,
    replay: Option<Vec<u8>>,
    replay_pos: usize,
    pub verdict: Option<Verdict>,
    pub lock_waits: u64,
    pub parks: u64,
    pub replay_diverged: bool,
    /// a park returns spuriously with probability 1/spurious_den (0 = never); `park` is
    /// documented to do that, so code that waits must re-check its condition
    spurious_den: u64,
    pub spurious: u64,
}

static SPURIOUS_DEN: std::sync::atomic::AtomicU64 = std::sync::atomic::AtomicU64::new(0);
/// applies to the schedules started afterwards
pub fn set_spurious_wakeups(one_in: u64) {
    SPURIOUS_DEN.store(one_in, std::sync::atomic::Ordering::SeqCst);
}

static SCHED: Mutex<Option<Sched>> = Mutex::new(None);
static CV: Condvar = Condvar::new();
thread_local! {
    static ME: Cell<usize> = const { Cell::new(usize::MAX) };
}

type G = MutexGuard<'static, Option<Sched>>;

fn lock() -> G {
    SCHED.lock().unwrap_or_else(|e| e.into_inner())
}

impl Sched {
    fn rnd(&mut self) -> u64 {
        self.rng ^= self.rng << 13;
        self.rng ^= self.rng >> 7;
        self.rng ^= self.rng << 17;
        self.rng
    }
    fn schedulable(&self, i: usize) -> bool {
        match self.st[i] {
            St::Runnable => true,
            St::LockWait => !self.polled[i],
            St::Parked => self.pending_unpark[i],
            St::Finished => false,
        }
    }
    /// picks the next token holder; false = nobody can run
    fn pick(&mut self, avoid: Option<usize>) -> bool {
        let cands: Vec<usize> = (0..self.st.len()).filter(|&i| self.schedulable(i)).collect();
        if cands.is_empty() {
            return false;
        }
        let pool: Vec<usize> = match avoid {
            Some(x) if cands.iter().any(|&c| c != x) => cands.iter().copied().filter(|&c| c != x).collect(),
            _ => cands,
        };
        // the random stream is consumed in replay mode, too, so that the switch points stay aligned
        let random_choice = pool[(self.rnd() % pool.len() as u64) as usize];
        let next = if let Some(r) = &self.replay {
            match r.get(self.replay_pos) {
                Some(&d) if pool.contains(&(d as usize)) => d as usize,
                _ => {
                    self.replay_diverged = true;
                    random_choice
                }
            }
        } else {
            random_choice
        };
        self.replay_pos += 1;
        self.decisions.push(next as u8);
        if next != self.cur {
            self.switches += 1;
        }
        self.cur = next;
        self.trace_hash = self.trace_hash.wrapping_mul(0x100_0000_01b3) ^ (next as u64 + 1) ^ (self.steps << 8);
        true
    }
    fn progress(&mut self) {
        for p in self.polled.iter_mut() {
            *p = false;
        }
    }
    fn describe(&self) -> String {
        format!("thread states {:?}, pending unparks {:?}", self.st, self.pending_unpark)
    }
}

fn stuck_forever() -> ! {
    // the verdict has been recorded; this thread is abandoned (the process ends soon)
    loop {
        std::thread::sleep(std::time::Duration::from_secs(3600));
    }
}

fn wait_turn(me: usize, mut g: G) -> G {
    CV.notify_all();
    loop {
        {
            let s = g.as_ref().unwrap();
            if s.verdict.is_some() && s.verdict != Some(Verdict::Completed) {
                drop(g);
                stuck_forever();
            }
            if s.cur == me {
                return g;
            }
        }
        g = CV.wait(g).unwrap_or_else(|e| e.into_inner());
    }
}

fn fail(mut g: G, v: Verdict) -> ! {
    g.as_mut().unwrap().verdict = Some(v);
    CV.notify_all();
    drop(g);
    stuck_forever();
}

pub fn on_site(site: u32, a: usize, _b: usize) {
    let me = ME.try_with(|m| m.get()).unwrap_or(usize::MAX);
    if me == usize::MAX {
        return;
    }
    let mut g = lock();
    {
        let s = g.as_mut().unwrap();
        if s.verdict.is_some() {
            drop(g);
            stuck_forever();
        }
        s.steps += 1;
        if s.steps > s.budget {
            let d = s.describe();
            let b = s.budget;
            fail(g, Verdict::Livelock(format!("the program did not finish within {b} instrumented steps; {d}")));
        }
    }
    match site {
        fvf::BEFORE_LOCK => loop {
            // safety: `a` is the address of a live `parking_lot::Mutex<()>` inside a node that
            // the calling thread is about to lock (it holds a guard protecting the node)
            let locked = unsafe { &*(a as *const parking_lot::Mutex<()>) }.is_locked();
            let s = g.as_mut().unwrap();
            if !locked {
                s.st[me] = St::Runnable;
                s.progress();
                return;
            }
            s.lock_waits += 1;
            s.st[me] = St::LockWait;
            s.polled[me] = true;
            if !s.pick(Some(me)) {
                let d = s.describe();
                fail(g, Verdict::Deadlock(format!("thread {me} waits for a bin lock and no other thread can run: {d}")));
            }
            if g.as_ref().unwrap().cur == me {
                // only we can run, and the lock is still held by somebody who cannot: deadlock
                let d = g.as_ref().unwrap().describe();
                fail(g, Verdict::Deadlock(format!("thread {me} waits for a bin lock held by a thread that cannot run: {d}")));
            }
            g = wait_turn(me, g);
        },
        fvf::PRE_PARK => {
            let s = g.as_mut().unwrap();
            s.parks += 1;
            if s.pending_unpark[me] {
                s.pending_unpark[me] = false;
                // the real park() that follows must not sleep
                std::thread::current().unpark();
                return;
            }
            if s.spurious_den > 0 && s.rnd() % s.spurious_den == 0 {
                // spurious wake-up: the real park() that follows returns at once
                s.spurious += 1;
                s.progress();
                std::thread::current().unpark();
                return;
            }
            s.st[me] = St::Parked;
            s.progress();
            if !s.pick(Some(me)) {
                let d = s.describe();
                fail(g, Verdict::Deadlock(format!("thread {me} parks waiting for tree-bin readers and nobody is left to wake it: {d}")));
            }
            g = wait_turn(me, g);
            let s = g.as_mut().unwrap();
            s.pending_unpark[me] = false;
            s.st[me] = St::Runnable;
            s.progress();
            std::thread::current().unpark();
        }
        fvf::AFTER_UNPARK => {
            // safety: `a` is the address of the `Thread` handle that was just unparked
            let tid = unsafe { &*(a as *const std::thread::Thread) }.id();
            let s = g.as_mut().unwrap();
            if let Some(i) = s.ids.iter().position(|x| *x == Some(tid)) {
                s.pending_unpark[i] = true;
            }
            s.progress();
        }
        fvf::SPIN => {
            // a spin loop: always offer the token to somebody else
            let s = g.as_mut().unwrap();
            s.progress();
            s.pick(Some(me));
            if s.cur != me {
                let _g = wait_turn(me, g);
            }
        }
        _ => {
            let s = g.as_mut().unwrap();
            s.progress();
            if s.rnd() % s.switch_den == 0 {
                s.pick(None);
                if s.cur != me {
                    let _g = wait_turn(me, g);
                }
            }
        }
    }
}

pub struct RunResult {
    pub verdict: Verdict,
    pub steps: u64,
    pub switches: u64,
    pub trace_hash: u64,
    pub decisions: Vec<u8>,
    pub lock_waits: u64,
    pub parks: u64,
    pub watchdog: bool,
    pub replay_diverged: bool,
    pub spurious: u64,
}

/// Runs `prog(thread index)` on `n` threads under the serial scheduler.
pub fn run<F>(n: usize, seed: u64, switch_den: u64, budget: u64, replay: Option<Vec<u8>>, prog: F) -> RunResult
where
    F: Fn(usize) + Send + Sync + 'static,
{
    *lock() = Some(Sched {
        cur: usize::MAX,
        st: vec![St::Runnable; n],
        ids: vec![None; n],
        pending_unpark: vec![false; n],
        polled: vec![false; n],
        rng: crate::util::splitmix(seed) | 1,
        steps: 0,
        switches: 0,
        budget,
        switch_den: switch_den.max(1),
        trace_hash: crate::util::FNV_OFFSET,
        decisions: Vec::new(),
        replay,
        replay_pos: 0,
        verdict: None,
        lock_waits: 0,
        parks: 0,
        replay_diverged: false,
        spurious_den: SPURIOUS_DEN.load(std::sync::atomic::Ordering::SeqCst),
        spurious: 0,
    });
    let prog = std::sync::Arc::new(prog);
    let ready = std::sync::Arc::new(std::sync::Barrier::new(n + 1));
    let mut hs = Vec::new();
    for t in 0..n {
        let (prog, ready) = (prog.clone(), ready.clone());
        hs.push(std::thread::spawn(move || {
            {
                let mut g = lock();
                g.as_mut().unwrap().ids[t] = Some(std::thread::current().id());
            }
            ready.wait();
            {
                let g = lock();
                let _g = wait_turn(t, g);
            }
            ME.with(|m| m.set(t));
            crate::hook::set_role(crate::hook::ROLE_SERIAL, t as u16, 0);
            let r = crate::util::guarded(|| prog(t));
            crate::hook::set_role(crate::hook::ROLE_NONE, 0, 0);
            ME.with(|m| m.set(usize::MAX));
            let mut g = lock();
            let s = g.as_mut().unwrap();
            s.st[t] = St::Finished;
            s.progress();
            if r.is_err() && s.verdict.is_none() {
                s.verdict = Some(Verdict::Panicked(format!("thread {t} panicked: {}", r.unwrap_err())));
            }
            if !s.pick(None) && s.st.iter().any(|x| *x != St::Finished) && s.verdict.is_none() {
                let d = s.describe();
                s.verdict = Some(Verdict::Deadlock(format!("thread {t} finished and no remaining thread can run: {d}")));
            }
            CV.notify_all();
        }));
    }
    ready.wait();
    {
        let mut g = lock();
        g.as_mut().unwrap().pick(None);
        CV.notify_all();
    }
    let t0 = std::time::Instant::now();
    let mut watchdog = false;
    loop {
        {
            let g = lock();
            let s = g.as_ref().unwrap();
            if s.verdict.is_some() || s.st.iter().all(|x| *x == St::Finished) {
                break;
            }
        }
        if t0.elapsed().as_secs() > 30 {
            watchdog = true;
            break;
        }
        std::thread::sleep(std::time::Duration::from_micros(20));
    }
    let (verdict, done) = {
        let mut g = lock();
        let s = g.as_mut().unwrap();
        let done = s.st.iter().all(|x| *x == St::Finished);
        if s.verdict.is_none() && done {
            s.verdict = Some(Verdict::Completed);
        }
        (s.verdict.clone(), done)
    };
    if done && verdict == Some(Verdict::Completed) {
        for h in hs {
            let _ = h.join();
        }
    }
    let g = lock();
    let s = g.as_ref().unwrap();
    RunResult {
        verdict: verdict.unwrap_or(Verdict::Completed),
        steps: s.steps,
        switches: s.switches,
        trace_hash: s.trace_hash,
        decisions: s.decisions.clone(),
        lock_waits: s.lock_waits,
        parks: s.parks,
        watchdog,
        replay_diverged: s.replay_diverged,
        spurious: s.spurious,
    }
}
