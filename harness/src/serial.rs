//! Serialised token-passing scheduler (filled in later).
pub fn on_site(_site: u32, _a: usize, _b: usize) {}
