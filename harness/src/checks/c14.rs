//! C14 — capacity contract: room as requested, power-of-two growth, no spurious resize.
use super::Ctx;
use crate::hashers::*;
use crate::hook;
use crate::outcome::Outcome;
use crate::seq::*;
use crate::types::ledger;
use crate::util::*;
use flurry::HashMap;

type UMap = HashMap<u64, u64, HB>;

fn table_len(m: &UMap) -> usize {
    let g = m.guard();
    m.verif_table_len(&g)
}

/// with_capacity(c): c collision-free keys fit without growth; capacity 0 allocates nothing.
fn capacity_case(c: usize, fill: bool) -> Result<usize, String> {
    let m: UMap = HashMap::with_capacity_and_hasher(c, HB::new(IDENTITY));
    let l0 = table_len(&m);
    if c == 0 {
        if l0 != 0 {
            return Err(format!("with_capacity(0) allocated a table of {l0} bins"));
        }
        let m2: UMap = HashMap::with_hasher(HB::new(IDENTITY));
        if table_len(&m2) != 0 {
            return Err("with_hasher() allocated a table".into());
        }
        return Ok(0);
    }
    if !l0.is_power_of_two() || l0 > (1 << 30) {
        return Err(format!("with_capacity({c}) created a table of {l0} bins"));
    }
    if !fill {
        // the table must at least be able to hold c entries below its threshold
        if (l0 - l0 / 4) < c && l0 < (1 << 30) {
            return Err(format!("with_capacity({c}) created {l0} bins: threshold {} is below the requested capacity", l0 - l0 / 4));
        }
        return Ok(l0);
    }
    let g = m.guard();
    for k in 0..c as u64 {
        m.insert(k, k, &g);
        if k % 64 == 63 || k + 1 == c as u64 {
            let l = m.verif_table_len(&g);
            if l != l0 {
                return Err(format!("with_capacity({c}): table grew from {l0} to {l} bins while inserting entry {} of {c} collision-free keys", k + 1));
            }
        }
    }
    Ok(l0)
}

/// Small tables: starting from the smallest tables the API can produce, collision-free keys are
/// inserted one by one; the table may double (once) only on the insert that brings the entry count
/// to three quarters of its length (n - n/4 entries), never earlier and never by more.
fn small_ladder(start: u8) -> Result<(String, usize), String> {
    let (name, m): (&str, UMap) = match start {
        0 => ("reserve(0) on a fresh map", {
            let m: UMap = HashMap::with_hasher(HB::new(IDENTITY));
            m.reserve(0, &m.guard());
            m
        }),
        1 => ("reserve(1) on a fresh map", {
            let m: UMap = HashMap::with_hasher(HB::new(IDENTITY));
            m.reserve(1, &m.guard());
            m
        }),
        2 => ("with_capacity(1)", HashMap::with_capacity_and_hasher(1, HB::new(IDENTITY))),
        3 => ("with_capacity(2)", HashMap::with_capacity_and_hasher(2, HB::new(IDENTITY))),
        4 => ("with_capacity(3)", HashMap::with_capacity_and_hasher(3, HB::new(IDENTITY))),
        5 => ("extend with an empty iterator on a fresh map", {
            let m: UMap = HashMap::with_hasher(HB::new(IDENTITY));
            (&m).extend(std::iter::empty::<(u64, u64)>());
            m
        }),
        6 => ("collect of one element", {
            flurry_default_identity();
            std::iter::once((0u64, 0u64)).collect::<UMap>()
        }),
        _ => ("a fresh map (first insert creates the default table)", HashMap::with_hasher(HB::new(IDENTITY))),
    };
    let g = m.guard();
    let mut len = m.verif_table_len(&g);
    let first = len;
    let start_count = m.len() as u64;
    for i in 0..80u64 {
        let k = start_count + i;
        m.insert(k, k, &g);
        let c = m.len();
        let l = m.verif_table_len(&g);
        if len == 0 {
            // the lazily created table: 16 bins by default
            if l != 16 {
                return Err(format!("{name}: the first insert created a table of {l} bins, expected the default 16"));
            }
        } else if l != len {
            if l != 2 * len {
                return Err(format!("{name}: the insert of entry {c} changed the table from {len} to {l} bins (collision-free keys: at most one doubling per insert)"));
            }
            if c < len - len / 4 {
                return Err(format!("{name}: the table grew from {len} to {l} bins at {c} entries, before the count reached three quarters of its length ({})", len - len / 4));
            }
        }
        len = l;
    }
    Ok((name.to_string(), first))
}

fn flurry_default_identity() {
    set_default_mode(IDENTITY);
}

/// reserve(a) on a map holding `fill` entries: `a` further collision-free keys fit.
fn reserve_case(cap: usize, fill: u64, a: u64) -> Result<(usize, usize), String> {
    let m: UMap = HashMap::with_capacity_and_hasher(cap, HB::new(IDENTITY));
    let g = m.guard();
    for k in 0..fill {
        m.insert(k, k, &g);
    }
    let before = m.verif_table_len(&g);
    m.reserve(a as usize, &g);
    let l0 = m.verif_table_len(&g);
    if l0 < before {
        return Err(format!("reserve({a}) shrank the table from {before} to {l0}"));
    }
    if l0 != 0 && !l0.is_power_of_two() {
        return Err(format!("reserve({a}) produced a table of {l0} bins"));
    }
    for k in fill..fill + a {
        m.insert(k, k, &g);
        let l = m.verif_table_len(&g);
        if l != l0 && l0 != 0 {
            return Err(format!(
                "after reserve({a}) on a map of {fill} entries (table {before} -> {l0} bins) the table grew to {l} bins while inserting further entry {} of {a}",
                k - fill + 1
            ));
        }
    }
    Ok((before, l0))
}

const REMOVERS: [&str; 7] = ["remove", "remove_entry", "compute_if_present->None", "retain", "retain_force", "clear", "set take"];

/// A table filled to `below` entries under its growth threshold; one removing operation must
/// leave the table length alone (and so must a second one).
fn removal_case(cap: usize, below: u64, op: u8) -> Result<(), String> {
    if op == 6 {
        let s: flurry::HashSet<u64, HB> = flurry::HashSet::with_capacity_and_hasher(cap, HB::new(IDENTITY));
        let g = s.guard();
        s.insert(0, &g);
        let l0 = s.verif_map().verif_table_len(&g);
        let thr = (l0 - l0 / 4) as u64;
        for k in 1..thr.saturating_sub(below).max(1) {
            s.insert(k, &g);
        }
        let n = s.len();
        for k in 0..2u64 {
            s.take(&k, &g);
            let l = s.verif_map().verif_table_len(&g);
            if l != l0 {
                return Err(format!("HashSet::take on a set of {n} entries in a {l0}-bin table changed the table to {l} bins"));
            }
        }
        return Ok(());
    }
    let m: UMap = HashMap::with_capacity_and_hasher(cap, HB::new(IDENTITY));
    let g = m.guard();
    m.insert(0, 0, &g);
    let l0 = m.verif_table_len(&g);
    let thr = (l0 - l0 / 4) as u64;
    for k in 1..thr.saturating_sub(below).max(1) {
        m.insert(k, k, &g);
    }
    if m.verif_table_len(&g) != l0 {
        return Err(format!("table grew below its threshold: {} entries, {} bins", m.len(), l0));
    }
    let n = m.len();
    for k in 0..2u64 {
        match op {
            0 => {
                m.remove(&k, &g);
            }
            1 => {
                m.remove_entry(&k, &g);
            }
            2 => {
                m.compute_if_present(&k, |_, _| None, &g);
            }
            3 => m.retain(|kk, _| *kk != k, &g),
            4 => m.retain_force(|kk, _| *kk != k, &g),
            _ => m.clear(&g),
        }
        let l = m.verif_table_len(&g);
        if l != l0 {
            return Err(format!(
                "{} on a map of {n} entries in a {l0}-bin table (threshold {thr}) changed the table to {l} bins ({} entries left)",
                REMOVERS[op as usize],
                m.len()
            ));
        }
    }
    Ok(())
}

pub fn run(ctx: &Ctx) -> Outcome {
    let mut out = Outcome::new(
        "capacity sweep: with_capacity(c) for every c in 0..=4096 (filled with c collision-free keys) and 2^k, 2^k+-1 up to 2^20 (filled up to 2^17, formula above); \
         reserve(a) on maps of every fill/a of a grid followed by a further insertions; random sequences on the identity hasher with a table-length monitor around every operation \
         (growth only by insert/try_insert at 3/4 load or an overfull bin below 64 bins, by reserve/extend; never by a removing operation; never shrinking; power of two); \
         distinct = distinct (capacity | reserve case | sequence) descriptions that allocated a table",
    );
    hook::install();
    let mut idx = 0u64;
    // ---- capacity sweep
    let mut caps: Vec<usize> = (0..=4096usize).collect();
    for k in 11..=20u32 {
        for d in [-1i64, 0, 1] {
            caps.push(((1i64 << k) + d) as usize);
        }
    }
    for c in caps {
        idx += 1;
        if idx % ctx.shards != ctx.shard {
            continue;
        }
        let fill = c <= ctx.q(1 << 14, 1 << 17);
        out.evaluations += 1;
        out.add("capacity_cases", 1);
        match guarded(|| capacity_case(c, fill)) {
            Ok(Ok(l)) => {
                if l > 0 {
                    out.distinct.insert(fnv(FNV_OFFSET, c as u64));
                }
                out.max("max_table_len", l as f64);
            }
            Ok(Err(e)) | Err(e) => {
                out.violate("c14/capacity", format!("capacity {c}: {e}"), Json::obj().with("check", Json::s("c14")).with("capacity", Json::u(c)));
                return out;
            }
        }
    }
    // ---- the maximum capacity (thorough only: each case maps an 8 GiB table)
    if ctx.thorough && ctx.shard == 0 {
        for c in [(1usize << 29) - 1, 1 << 29, (1 << 30) + 5, usize::MAX / 2, usize::MAX] {
            out.evaluations += 1;
            out.add("maximum_capacity_cases", 1);
            match guarded(|| capacity_case(c, false)) {
                Ok(Ok(l)) if l == 1 << 30 => {
                    out.distinct.insert(fnv(FNV_OFFSET ^ 0x30, c as u64));
                    out.max("max_table_len", l as f64);
                }
                Ok(Ok(l)) => {
                    out.violate("c14/capacity-max", format!("with_capacity({c}) created a table of {l} bins, expected the maximum 2^30"), Json::obj().with("check", Json::s("c14")).with("capacity", Json::u(c)));
                    return out;
                }
                Ok(Err(e)) | Err(e) => {
                    out.violate("c14/capacity-max", format!("capacity {c}: {e}"), Json::obj().with("check", Json::s("c14")).with("capacity", Json::u(c)));
                    return out;
                }
            }
        }
    }
    // ---- small-table growth ladders
    if ctx.shard == 0 {
        for start in 0..8u8 {
            out.evaluations += 1;
            out.add("small_table_ladders", 1);
            match guarded(|| small_ladder(start)) {
                Ok(Ok((name, first))) => {
                    out.distinct.insert(fnv(FNV_OFFSET ^ 0x1ad, start as u64));
                    out.list("small_table_ladder_starts", &format!("{name}: {first} bins"));
                }
                Ok(Err(e)) | Err(e) => {
                    out.violate("c14/small-ladder", e, Json::obj().with("check", Json::s("c14")).with("part", Json::s("small-ladder")).with("start", Json::u(start)));
                    return out;
                }
            }
        }
    }
    // ---- reserve grid
    for cap in [0usize, 1, 8, 16, 33, 100] {
        for fill in [0u64, 1, 5, 11, 12, 13, 24, 47, 48, 49, 100, 385] {
            for a in [0u64, 1, 2, 7, 12, 13, 33, 100, 500, 3000] {
                idx += 1;
                if idx % ctx.shards != ctx.shard {
                    continue;
                }
                out.evaluations += 1;
                out.add("reserve_cases", 1);
                match guarded(|| reserve_case(cap, fill, a)) {
                    Ok(Ok((b, l))) => {
                        if l > b {
                            out.add("reserve_cases_that_grew", 1);
                        }
                        out.distinct.insert(fnv(fnv(fnv(FNV_OFFSET ^ 7, cap as u64), fill), a));
                    }
                    Ok(Err(e)) | Err(e) => {
                        out.violate(
                            "c14/reserve",
                            format!("with_capacity({cap}), {fill} entries, reserve({a}): {e}"),
                            Json::obj().with("check", Json::s("c14")).with("cap", Json::u(cap)).with("fill", Json::u(fill)).with("reserve", Json::u(a)),
                        );
                        return out;
                    }
                }
            }
        }
    }
    // ---- removal grid: every removing operation at fills around the growth threshold
    for cap in [0usize, 20, 40, 90] {
        for below in 1..=4u64 {
            for op in 0..7u8 {
                idx += 1;
                if idx % ctx.shards != ctx.shard {
                    continue;
                }
                out.evaluations += 1;
                out.add("removal_cases", 1);
                match guarded(|| removal_case(cap, below, op)) {
                    Ok(Ok(())) => {
                        out.distinct.insert(fnv(fnv(fnv(FNV_OFFSET ^ 9, cap as u64), below), op as u64));
                    }
                    Ok(Err(e)) | Err(e) => {
                        out.violate(
                            format!("c14/removal/{}", REMOVERS[op as usize]),
                            e,
                            Json::obj().with("check", Json::s("c14")).with("cap", Json::u(cap)).with("below_threshold", Json::u(below)).with("op", Json::s(REMOVERS[op as usize])),
                        );
                        return out;
                    }
                }
            }
        }
    }
    // ---- random sequences with the growth monitor
    let target = ctx.q(2500u64, 2_000_000);
    let mut i = 0;
    let mut st = SeqStats::default();
    while i < target && ctx.time_left() {
        let mut rng = Rng::derive(ctx.seed ^ 0x14, ctx.shard, i);
        i += 1;
        let cfg = SeqCfg {
            mode: *rng.pick(&[IDENTITY, IDENTITY, IDENTITY, UNIFORM]),
            cap: *rng.pick(&[0usize, 0, 1, 2, 5, 10, 11, 12, 16, 20, 40, 64]),
            universe: rng.range(8, 200),
            steps: rng.range(60, ctx.q(600, 3000)) as usize,
            facade: rng.below(5) as u8,
            audit_every: 0,
            growth: true,
            cmp_bound: false,
            profile: 2,
            batch: 8,
            allow_replace_map: false,
        };
        ledger().reset();
        let mut one = SeqStats::default();
        let r = guarded(|| run_seq(&cfg, &mut rng, &mut one));
        out.evaluations += 1;
        out.add("growth_sequences", 1);
        out.add("growth_steps", one.steps);
        out.add("growths_observed", one.growths);
        for (k, v) in &one.ops {
            if matches!(*k, "remove" | "remove_entry" | "compute_none" | "compute_cond" | "retain" | "retain_force" | "clear") {
                out.add(&format!("removing_op_{k}"), *v);
            }
        }
        if one.growths > 0 {
            let mut h = fnv_str(FNV_OFFSET, &cfg.to_json().to_string());
            for t in &one.trace {
                h = fnv_str(h, t);
            }
            out.distinct.insert(h);
        }
        if out.samples.len() < 2 && one.growths > 1 {
            out.sample(Json::obj().with("config", cfg.to_json()).with("first_ops", Json::Arr(one.trace.iter().take(20).map(|s| Json::s(s.clone())).collect())).with("growths", Json::u(one.growths)));
        }
        st.steps += one.steps;
        let r = match r {
            Ok(r) => r,
            Err(p) => Err(SeqFailure { sig: "panic".into(), detail: p }),
        };
        if let Err(f) = r {
            out.violate(
                format!("c14/seq/{}", f.sig),
                format!("{} [sequence {} shard {} {}]; first operations {:?}", f.detail, i - 1, ctx.shard, cfg.to_json(), one.trace.iter().take(30).collect::<Vec<_>>()),
                Json::obj().with("check", Json::s("c14")).with("seed", Json::u(ctx.seed)).with("shard", Json::u(ctx.shard)).with("sequence", Json::u(i - 1)).with("config", cfg.to_json()),
            );
            break;
        }
    }
    out
}
