//! C09 — every guard-taking operation rejects guards of a foreign collector.
use super::Ctx;
use crate::hashers::*;
use crate::outcome::Outcome;
use crate::util::*;
use flurry::{HashMap, HashSet};
use std::collections::BTreeMap;

type UMap = HashMap<u64, u64, HB>;
type USet = HashSet<u64, HB>;

fn make_map(populated: bool, mode: u8) -> (UMap, BTreeMap<u64, u64>) {
    let m: UMap = HashMap::with_capacity_and_hasher(if populated { 64 } else { 0 }, HB::new(mode));
    let mut model = BTreeMap::new();
    if populated {
        let g = m.guard();
        for k in 0..12 {
            m.insert(k, k + 100, &g);
            model.insert(k, k + 100);
        }
    }
    (m, model)
}
fn make_set(populated: bool, mode: u8) -> USet {
    let s: USet = HashSet::with_capacity_and_hasher(if populated { 64 } else { 0 }, HB::new(mode));
    if populated {
        let g = s.guard();
        for k in 0..12 {
            s.insert(k, &g);
        }
    }
    s
}

fn make_set_n(n: u64, mode: u8) -> USet {
    let s: USet = HashSet::with_capacity_and_hasher(64, HB::new(mode));
    let g = s.guard();
    for k in 0..n {
        s.insert(k, &g);
    }
    drop(g);
    s
}

fn map_unchanged(m: &UMap, model: &BTreeMap<u64, u64>) -> Result<(), String> {
    let g = m.guard();
    let mut got: Vec<(u64, u64)> = m.iter(&g).map(|(k, v)| (*k, *v)).collect();
    got.sort();
    let want: Vec<(u64, u64)> = model.iter().map(|(k, v)| (*k, *v)).collect();
    if got != want || m.len() != model.len() {
        return Err(format!("map changed: holds {:?}, expected {:?}", got, want));
    }
    let d = m.verif_dump(&g);
    let (a, _) = crate::inspect::audit(&d, None, m.len(), m.is_empty());
    if !a.ok() {
        return Err(a.failures.join("; "));
    }
    Ok(())
}

pub fn run(ctx: &Ctx) -> Outcome {
    let mut out = Outcome::new(
        "every public guard-taking entry point of HashMap, HashSet and the with_guard reference wrappers (list cross-checked against a source scan by the supervisor) \
         x {never-used map, populated list bins, populated tree bin} x {guard of an unrelated seize::Collector, guard of a sibling map, guard of the map swapped into this map's old place} : must panic before touching the map; \
         distinct = distinct (entry point, map state) pairs",
    );
    install_panic_capture();
    let foreign = seize::Collector::new();
    let states: [(&str, bool, u8); 3] = [("empty", false, UNIFORM), ("populated", true, UNIFORM), ("tree-bin", true, CONSTANT)];
    // where the foreign guard comes from: an unrelated collector, a sibling map of the same type,
    // or the map that now lives where this map lived before the two were swapped (both used before)
    let provs = ["unrelated collector", "sibling map", "map swapped into this map's old place"];
    let nprov = ctx.args.u64("provenances", 3) as usize;
    for (prov, pname) in provs.iter().enumerate().take(nprov) {
    for (sname0, populated, mode) in states {
        let sname_s = if prov == 0 { sname0.to_string() } else { format!("{sname0}, guard of {pname}") };
        let sname = sname_s.as_str();
        macro_rules! case {
            ($name:expr, |$m:ident, $fg:ident| $body:expr) => {{
                let ($m, model0) = make_map(populated, mode);
                let (mut other, model_o) = make_map(true, mode);
                #[allow(unused_mut)]
                let mut $m = $m;
                let model = if prov == 2 {
                    std::mem::swap(&mut $m, &mut other);
                    model_o
                } else {
                    model0
                };
                let $fg = if prov == 0 { foreign.enter() } else { other.guard() };
                QUIET_PANICS.with(|q| q.set(true));
                let r = std::panic::catch_unwind(std::panic::AssertUnwindSafe(|| {
                    let _ = $body;
                }));
                QUIET_PANICS.with(|q| q.set(false));
                let _ = last_panic();
                out.evaluations += 1;
                out.list("entry_points_tested", $name);
                out.distinct.insert(fnv_str(fnv_str(FNV_OFFSET, $name), sname));
                let after = map_unchanged(&$m, &model);
                let mut problem = None;
                if r.is_ok() {
                    problem = Some(format!("{} accepted a guard of a foreign collector on a {} map (returned normally)", $name, sname));
                } else if let Err(e) = after {
                    problem = Some(format!("{} panicked on the foreign guard but did not leave the {} map untouched: {}", $name, sname, e));
                }
                if let Some(p) = problem {
                    out.violate(format!("c09/{}", $name), p, Json::obj().with("check", Json::s("c09")).with("entry_point", Json::s($name)).with("state", Json::s(sname)));
                }
            }};
        }
        case!("HashMap::iter", |m, fg| m.iter(&fg).count());
        case!("HashMap::keys", |m, fg| m.keys(&fg).count());
        case!("HashMap::values", |m, fg| m.values(&fg).count());
        case!("HashMap::reserve", |m, fg| m.reserve(100, &fg));
        case!("HashMap::contains_key", |m, fg| m.contains_key(&1, &fg));
        case!("HashMap::get", |m, fg| m.get(&1, &fg).copied());
        case!("HashMap::get_key_value", |m, fg| m.get_key_value(&1, &fg).map(|x| *x.1));
        case!("HashMap::clear", |m, fg| m.clear(&fg));
        case!("HashMap::insert", |m, fg| m.insert(1, 7, &fg).copied());
        case!("HashMap::insert(new key)", |m, fg| m.insert(500, 7, &fg).copied());
        case!("HashMap::try_insert", |m, fg| m.try_insert(1, 7, &fg).is_ok());
        case!("HashMap::try_insert(new key)", |m, fg| m.try_insert(500, 7, &fg).is_ok());
        case!("HashMap::compute_if_present", |m, fg| m.compute_if_present(&1, |_, v| Some(v + 1), &fg).copied());
        case!("HashMap::remove", |m, fg| m.remove(&1, &fg).copied());
        case!("HashMap::remove_entry", |m, fg| m.remove_entry(&1, &fg).map(|x| *x.1));
        case!("HashMap::retain", |m, fg| m.retain(|_, _| false, &fg));
        case!("HashMap::retain_force", |m, fg| m.retain_force(|_, _| false, &fg));
        // through the reference wrapper
        case!("HashMapRef::iter", |m, fg| m.with_guard(&fg).iter().count());
        case!("HashMapRef::keys", |m, fg| m.with_guard(&fg).keys().count());
        case!("HashMapRef::values", |m, fg| m.with_guard(&fg).values().count());
        case!("HashMapRef::reserve", |m, fg| m.with_guard(&fg).reserve(100));
        case!("HashMapRef::contains_key", |m, fg| m.with_guard(&fg).contains_key(&1));
        case!("HashMapRef::get", |m, fg| m.with_guard(&fg).get(&1).copied());
        case!("HashMapRef::get_key_value", |m, fg| m.with_guard(&fg).get_key_value(&1).map(|x| *x.1));
        case!("HashMapRef::clear", |m, fg| m.with_guard(&fg).clear());
        case!("HashMapRef::insert", |m, fg| m.with_guard(&fg).insert(1, 7).copied());
        case!("HashMapRef::try_insert", |m, fg| m.with_guard(&fg).try_insert(500, 7).is_ok());
        case!("HashMapRef::compute_if_present", |m, fg| m.with_guard(&fg).compute_if_present(&1, |_, v| Some(v + 1)).copied());
        case!("HashMapRef::remove", |m, fg| m.with_guard(&fg).remove(&1).copied());
        case!("HashMapRef::remove_entry", |m, fg| m.with_guard(&fg).remove_entry(&1).map(|x| *x.1));
        case!("HashMapRef::retain", |m, fg| m.with_guard(&fg).retain(|_, _| false));
        case!("HashMapRef::retain_force", |m, fg| m.with_guard(&fg).retain_force(|_, _| false));
        case!("HashMapRef::into_iter", |m, fg| (&m.with_guard(&fg)).into_iter().count());
        if populated {
            // these only reach the guard when there is something to look at
            case!("HashMapRef::index", |m, fg| m.with_guard(&fg)[&1]);
            case!("HashMapRef::eq(HashMapRef) [left guard foreign]", |m, fg| {
                let o = m.clone();
                let og = o.guard();
                let res = m.with_guard(&fg) == o.with_guard(&og);
                res
            });
            case!("HashMapRef::eq(HashMapRef) [right guard foreign]", |m, fg| {
                let o = m.clone();
                let og = o.guard();
                let res = o.with_guard(&og) == m.with_guard(&fg);
                res
            });
            case!("HashMapRef::eq(HashMap)", |m, fg| {
                let o = m.clone();
                m.with_guard(&fg) == o
            });
            case!("HashMap::eq(HashMapRef)", |m, fg| {
                let o = m.clone();
                o == m.with_guard(&fg)
            });
            case!("HashMapRef::debug", |m, fg| format!("{:?}", m.with_guard(&fg)));
        }
        // ---- sets
        macro_rules! scase {
            ($name:expr, |$s:ident, $fg:ident| $body:expr) => {{
                #[allow(unused_mut)]
                let mut $s = make_set(populated, mode);
                let mut other_set = make_set(true, mode);
                if prov == 2 {
                    std::mem::swap(&mut $s, &mut other_set);
                }
                let before: Vec<u64> = {
                    let g = $s.guard();
                    let mut v: Vec<u64> = $s.iter(&g).copied().collect();
                    v.sort();
                    v
                };
                let $fg = if prov == 0 { foreign.enter() } else { other_set.guard() };
                QUIET_PANICS.with(|q| q.set(true));
                let r = std::panic::catch_unwind(std::panic::AssertUnwindSafe(|| {
                    let _ = $body;
                }));
                QUIET_PANICS.with(|q| q.set(false));
                let _ = last_panic();
                out.evaluations += 1;
                out.list("entry_points_tested", $name);
                out.distinct.insert(fnv_str(fnv_str(FNV_OFFSET, $name), sname));
                let after: Vec<u64> = {
                    let g = $s.guard();
                    let mut v: Vec<u64> = $s.iter(&g).copied().collect();
                    v.sort();
                    v
                };
                let mut problem = None;
                if r.is_ok() {
                    problem = Some(format!("{} accepted a guard of a foreign collector on a {} set (returned normally)", $name, sname));
                } else if before != after {
                    problem = Some(format!("{} panicked on the foreign guard but changed the {} set: {:?} -> {:?}", $name, sname, before, after));
                }
                if let Some(p) = problem {
                    out.violate(format!("c09/{}", $name), p, Json::obj().with("check", Json::s("c09")).with("entry_point", Json::s($name)).with("state", Json::s(sname)));
                }
            }};
        }
        scase!("HashSet::iter", |s, fg| s.iter(&fg).count());
        scase!("HashSet::contains", |s, fg| s.contains(&1, &fg));
        scase!("HashSet::get", |s, fg| s.get(&1, &fg).copied());
        scase!("HashSet::insert", |s, fg| s.insert(1, &fg));
        scase!("HashSet::insert(new)", |s, fg| s.insert(500, &fg));
        scase!("HashSet::remove", |s, fg| s.remove(&1, &fg));
        scase!("HashSet::take", |s, fg| s.take(&1, &fg).copied());
        scase!("HashSet::retain", |s, fg| s.retain(|_| false, &fg));
        scase!("HashSet::clear", |s, fg| s.clear(&fg));
        scase!("HashSet::reserve", |s, fg| s.reserve(100, &fg));
        scase!("HashSetRef::iter", |s, fg| s.with_guard(&fg).iter().count());
        scase!("HashSetRef::contains", |s, fg| s.with_guard(&fg).contains(&1));
        scase!("HashSetRef::get", |s, fg| s.with_guard(&fg).get(&1).copied());
        scase!("HashSetRef::insert", |s, fg| s.with_guard(&fg).insert(500));
        scase!("HashSetRef::remove", |s, fg| s.with_guard(&fg).remove(&1));
        scase!("HashSetRef::take", |s, fg| s.with_guard(&fg).take(&1).copied());
        scase!("HashSetRef::retain", |s, fg| s.with_guard(&fg).retain(|_| false));
        scase!("HashSetRef::clear", |s, fg| s.with_guard(&fg).clear());
        scase!("HashSetRef::reserve", |s, fg| s.with_guard(&fg).reserve(100));
        scase!("HashSetRef::into_iter", |s, fg| (&s.with_guard(&fg)).into_iter().count());
        if populated {
            // two-guard relations: each guard position, both operands populated
            scase!("HashSet::is_disjoint [our guard foreign]", |s, fg| {
                let o = make_set(true, mode);
                let og = o.guard();
                s.is_disjoint(&o, &fg, &og)
            });
            scase!("HashSet::is_disjoint [their guard foreign]", |s, fg| {
                let o = make_set(true, mode);
                let og = o.guard();
                o.is_disjoint(&s, &og, &fg)
            });
            scase!("HashSet::is_subset [our guard foreign]", |s, fg| {
                let o = make_set(true, mode);
                let og = o.guard();
                s.is_subset(&o, &fg, &og)
            });
            scase!("HashSet::is_subset [their guard foreign]", |s, fg| {
                let o = make_set(true, mode);
                let og = o.guard();
                o.is_subset(&s, &og, &fg)
            });
            scase!("HashSet::is_superset [our guard foreign]", |s, fg| {
                let o = make_set(true, mode);
                let og = o.guard();
                s.is_superset(&o, &fg, &og)
            });
            scase!("HashSet::is_superset [their guard foreign]", |s, fg| {
                let o = make_set(true, mode);
                let og = o.guard();
                o.is_superset(&s, &og, &fg)
            });
            scase!("HashSetRef::is_disjoint", |s, fg| {
                let o = make_set(true, mode);
                let og = o.guard();
                let res = s.with_guard(&fg).is_disjoint(&o.with_guard(&og));
                res
            });
            scase!("HashSetRef::is_subset", |s, fg| {
                let o = make_set(true, mode);
                let og = o.guard();
                let res = s.with_guard(&fg).is_subset(&o.with_guard(&og));
                res
            });
            scase!("HashSetRef::is_superset", |s, fg| {
                let o = make_set(true, mode);
                let og = o.guard();
                let res = s.with_guard(&fg).is_superset(&o.with_guard(&og));
                res
            });
            // the same relations with operands of different sizes (an implementation may walk the
            // smaller set and probe the larger one)
            for on in [3u64, 40] {
                scase!(if on == 3 { "HashSet::is_disjoint [our guard foreign, other smaller]" } else { "HashSet::is_disjoint [our guard foreign, other larger]" }, |s, fg| {
                    let o = make_set_n(on, mode);
                    let og = o.guard();
                    s.is_disjoint(&o, &fg, &og)
                });
                scase!(if on == 3 { "HashSet::is_disjoint [their guard foreign, other smaller]" } else { "HashSet::is_disjoint [their guard foreign, other larger]" }, |s, fg| {
                    let o = make_set_n(on, mode);
                    let og = o.guard();
                    o.is_disjoint(&s, &og, &fg)
                });
                scase!(if on == 3 { "HashSet::is_subset [our guard foreign, other smaller]" } else { "HashSet::is_subset [our guard foreign, other larger]" }, |s, fg| {
                    let o = make_set_n(on, mode);
                    let og = o.guard();
                    s.is_subset(&o, &fg, &og)
                });
                scase!(if on == 3 { "HashSet::is_subset [their guard foreign, other smaller]" } else { "HashSet::is_subset [their guard foreign, other larger]" }, |s, fg| {
                    let o = make_set_n(on, mode);
                    let og = o.guard();
                    o.is_subset(&s, &og, &fg)
                });
                scase!(if on == 3 { "HashSet::is_superset [our guard foreign, other smaller]" } else { "HashSet::is_superset [our guard foreign, other larger]" }, |s, fg| {
                    let o = make_set_n(on, mode);
                    let og = o.guard();
                    s.is_superset(&o, &fg, &og)
                });
                scase!(if on == 3 { "HashSet::is_superset [their guard foreign, other smaller]" } else { "HashSet::is_superset [their guard foreign, other larger]" }, |s, fg| {
                    let o = make_set_n(on, mode);
                    let og = o.guard();
                    o.is_superset(&s, &og, &fg)
                });
                scase!(if on == 3 { "HashSetRef::is_disjoint [other smaller]" } else { "HashSetRef::is_disjoint [other larger]" }, |s, fg| {
                    let o = make_set_n(on, mode);
                    let og = o.guard();
                    let res = s.with_guard(&fg).is_disjoint(&o.with_guard(&og));
                    res
                });
                scase!(if on == 3 { "HashSetRef::is_disjoint [foreign on the right, other smaller]" } else { "HashSetRef::is_disjoint [foreign on the right, other larger]" }, |s, fg| {
                    let o = make_set_n(on, mode);
                    let og = o.guard();
                    let res = o.with_guard(&og).is_disjoint(&s.with_guard(&fg));
                    res
                });
            }
            // NOTE: `HashSetRef == HashSetRef` compares the underlying sets under fresh guards of
            // their own and never looks at the wrapped guards, so it is not required to panic.
            scase!("HashSetRef::eq(HashSet)", |s, fg| {
                let o = make_set(true, mode);
                s.with_guard(&fg) == o
            });
            scase!("HashSet::eq(HashSetRef)", |s, fg| {
                let o = make_set(true, mode);
                o == s.with_guard(&fg)
            });
        }
    }
    }
    // positive control: the map's own guard is accepted everywhere (so a blanket panic would show)
    {
        let (m, _) = make_map(true, UNIFORM);
        let g = m.guard();
        let ok = guarded(|| {
            m.insert(77, 1, &g);
            m.try_insert(78, 1, &g).is_ok() && m.get(&77, &g).is_some() && {
                m.clear(&g);
                m.is_empty()
            }
        });
        if ok != Ok(true) {
            out.violate("c09/own-guard", format!("operations with the map's own guard failed: {:?}", ok), Json::obj().with("check", Json::s("c09")));
        }
        out.add("own_guard_controls", 1);
    }
    out.sample(Json::s("HashMap::try_insert(new key) on never-used map with foreign guard: expect panic, map unchanged"));
    out.exhaustive = Some(true);
    let _ = ctx;
    out
}
