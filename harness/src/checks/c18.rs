//! C18 — a panicking callback leaves the map consistent and unlocked.
//! Fault enumeration: for one prepared map, the panic is injected at the i-th callback
//! invocation for every i the operation performs.
use super::Ctx;
use crate::api::*;
use crate::hashers::*;
use crate::hook;
use crate::outcome::Outcome;
use crate::seq::{audit_map, compare_full, SeqStats};
use crate::types::*;
use crate::util::*;
use std::collections::BTreeMap;
use std::sync::atomic::{AtomicBool, Ordering};
use std::sync::Arc;

type Model = BTreeMap<u64, (u32, u64)>;

struct Injected;

fn build(mode: u8, cap: usize, universe: u64, n_ops: u64, rng: &mut Rng) -> (Arc<Map>, Model) {
    let map = Arc::new(if cap == 0 { Map::with_hasher(HB::new(mode)) } else { Map::with_capacity_and_hasher(cap, HB::new(mode)) });
    let mut model = Model::new();
    let g = map.guard();
    let api = Api { map: &map, facade: 0, guard: &g };
    let mut v = 0;
    for i in 0..n_ops {
        let k = rng.below(universe);
        if rng.chance(3, 4) {
            v += 1;
            api.insert(k, i as u32, v);
            let o = model.get(&k).map(|x| x.0).unwrap_or(i as u32);
            model.insert(k, (o, v));
        } else {
            api.remove(k);
            model.remove(&k);
        }
    }
    drop(g);
    (map, model)
}

pub const OPS: [&str; 7] = ["compute_if_present", "retain", "retain_force", "for-iter", "for-keys", "for-values", "HashSet::retain"];

/// Runs operation `op` with a panic injected at callback invocation `at` (1-based; 0 = never).
/// Returns (number of callback invocations, whether the panic reached the caller).
fn run_op(map: &Map, model: &mut Model, op: u8, key: u64, at: u64) -> (u64, bool) {
    let mut calls = 0u64;
    // verdicts the predicate gave before the panic (retain variants)
    let mut rejected: Vec<u64> = Vec::new();
    let mut computed: Option<u64> = None;
    QUIET_PANICS.with(|q| q.set(true));
    let r = std::panic::catch_unwind(std::panic::AssertUnwindSafe(|| {
        let g = map.guard();
        match op {
            0 => {
                let r = map.compute_if_present(
                    &KQ(key),
                    |_k, v| {
                        calls += 1;
                        if calls == at {
                            std::panic::panic_any(Injected);
                        }
                        Some(TVal::new(v.get() + 1_000_000))
                    },
                    &g,
                );
                computed = r.map(|x| x.get());
            }
            1 | 2 => {
                let pred = |k: &TKey, _v: &TVal| {
                    calls += 1;
                    if calls == at {
                        std::panic::panic_any(Injected);
                    }
                    let keep = k.k % 2 == 0;
                    if !keep {
                        rejected.push(k.k);
                    }
                    keep
                };
                if op == 1 {
                    map.retain(pred, &g)
                } else {
                    map.retain_force(pred, &g)
                }
            }
            3 => {
                for (k, v) in map.iter(&g) {
                    calls += 1;
                    if calls == at {
                        std::panic::panic_any(Injected);
                    }
                    k.verify();
                    v.verify();
                }
            }
            4 => {
                for k in map.keys(&g) {
                    calls += 1;
                    if calls == at {
                        std::panic::panic_any(Injected);
                    }
                    k.verify();
                }
            }
            _ => {
                for v in map.values(&g) {
                    calls += 1;
                    if calls == at {
                        std::panic::panic_any(Injected);
                    }
                    v.verify();
                }
            }
        }
    }));
    QUIET_PANICS.with(|q| q.set(false));
    let _ = last_panic();
    let panicked = match &r {
        Err(p) => p.is::<Injected>(),
        Ok(()) => false,
    };
    // what the model expects: verdicts given before the panic took effect; the entry being
    // processed when the panic hit is unchanged
    for k in rejected {
        model.remove(&k);
    }
    if let Some(nv) = computed {
        if let Some(e) = model.get_mut(&key) {
            e.1 = nv;
        }
    }
    (calls, panicked || r.is_ok())
}

#[cfg(not(miri))]
fn thread_state(tid: i64) -> char {
    let s = std::fs::read_to_string(format!("/proc/self/task/{tid}/stat")).unwrap_or_default();
    s.rsplit(')').next().and_then(|r| r.trim().chars().next()).unwrap_or('?')
}

/// A second thread writes to and removes from the bins of `keys`; Err = it did not return.
fn second_thread_writes(map: &Arc<Map>, keys: &[u64]) -> Result<(), String> {
    let done = Arc::new(AtomicBool::new(false));
    let tid = Arc::new(std::sync::atomic::AtomicI64::new(0));
    let (m, d, t, ks) = (map.clone(), done.clone(), tid.clone(), keys.to_vec());
    let h = std::thread::spawn(move || {
        #[cfg(not(miri))]
        t.store(unsafe { libc::syscall(libc::SYS_gettid) } as i64, Ordering::SeqCst);
        let _ = &t;
        let g = m.guard();
        for k in ks {
            // same bin, different key: append and remove again
            let probe = k + (1 << 40);
            m.insert(TKey::new(probe, 0), TVal::new(1), &g);
            m.compute_if_present(&KQ(k), |_, v| Some(TVal::new(v.get())), &g);
            m.remove(&KQ(probe), &g);
        }
        d.store(true, Ordering::SeqCst);
    });
    let t0 = std::time::Instant::now();
    while !done.load(Ordering::SeqCst) {
        if t0.elapsed().as_secs() >= 8 {
            #[cfg(not(miri))]
            {
                let st = thread_state(tid.load(Ordering::SeqCst));
                if st == 'S' {
                    return Err("a write from a second thread to the bin did not return within 8 s and the thread is asleep (state S): a lock is still held".into());
                }
            }
            return Err("INCONCLUSIVE second thread slow".into());
        }
        std::thread::yield_now();
    }
    h.join().map_err(|_| "second thread panicked".to_string())?;
    Ok(())
}

fn hash_bin_keys(mode: u8, model: &Model, key: u64, len: usize) -> Vec<u64> {
    let _ = (mode, len);
    let mut v = vec![key];
    if let Some(k) = model.keys().next() {
        v.push(*k);
    }
    v
}

/// compute_if_present with a panicking closure while a resize is in flight: the resizing
/// thread is frozen after forwarding a few bins; the computing thread meets a forwarding marker
/// (or not), panics inside its closure; then the resize is released and everything must be
/// consistent.
fn during_resize(mode: u8, forwarded_before: u64, key_sel: u64) -> Result<(bool, bool), String> {
    use crate::orch::Actor;
    use flurry::verif as fvf;
    let map: Arc<Map> = Arc::new(Map::with_hasher(HB::new(mode)));
    let mut model = Model::new();
    {
        let g = map.guard();
        for k in 0..11u64 {
            map.insert(TKey::new(k, 0), TVal::new(100 + k), &g);
            model.insert(k, (0, 100 + k));
        }
    }
    let m = map.clone();
    let resizer = Actor::spawn("resizer", 1, |g| g.arm_site(fvf::EV_BIN_FORWARDED, forwarded_before), move || {
        let g = m.guard();
        m.insert(TKey::new(11, 0), TVal::new(111), &g);
    });
    model.insert(11, (0, 111));
    let frozen = resizer.wait_frozen_or_done(30_000).map_err(|e| format!("INCONCLUSIVE {e}"))?;
    let key = key_sel % 11;
    let met_marker = {
        let g = map.guard();
        let d = map.verif_dump(&g);
        let b = (hash_of(mode, key) & (d.len as u64 - 1)) as usize;
        matches!(d.bins.get(b), Some(flurry::verif::BinDump::Moved))
    };
    let m = map.clone();
    let computer = std::thread::spawn(move || {
        QUIET_PANICS.with(|q| q.set(true));
        let r = std::panic::catch_unwind(std::panic::AssertUnwindSafe(|| {
            let g = m.guard();
            m.compute_if_present(&KQ(key), |_, _| -> Option<TVal> { std::panic::panic_any(Injected) }, &g);
        }));
        matches!(&r, Err(p) if p.is::<Injected>())
    });
    // the computing thread may have to wait for the frozen resizer (it helps the transfer and can
    // block on a bin lock the resizer holds): release the resizer after a moment
    let t0 = std::time::Instant::now();
    while !computer.is_finished() && t0.elapsed().as_millis() < 50 {
        std::thread::yield_now();
    }
    let finished_while_resize_open = computer.is_finished();
    resizer.gate.release();
    resizer.wait_done(30_000).map_err(|e| format!("INCONCLUSIVE {e}"))?;
    resizer.join()?;
    let propagated = computer.join().map_err(|_| "computing thread died".to_string())?;
    let _ = last_panic();
    if !propagated {
        return Err("the injected panic did not reach the caller of compute_if_present".into());
    }
    let mut st = SeqStats::default();
    audit_map(&map, mode, Some(&model), false, &mut st).map_err(|f| format!("after the panic and the end of the resize: {}", f.detail))?;
    second_thread_writes(&map, &[key, 0])?;
    audit_map(&map, mode, Some(&model), false, &mut st).map_err(|f| format!("after the second thread's writes: {}", f.detail))?;
    let _ = frozen;
    Ok((met_marker, finished_while_resize_open))
}

/// compute_if_present with a panicking closure on a key of a tree bin while `readers` other
/// threads are inside that tree (holding its read lock). After the panic the readers leave; the
/// tree lock must be free again, a writer that needs the root lock must get it, and the map must
/// equal the model.
fn with_readers_inside(mode: u8, nkeys: u64, readers: usize, key: u64) -> Result<(), String> {
    use crate::orch::Actor;
    use flurry::verif as fvf;
    let map: Arc<Map> = Arc::new(Map::with_capacity_and_hasher(64, HB::new(mode)));
    let mut model = Model::new();
    {
        let g = map.guard();
        for k in 0..nkeys {
            map.insert(TKey::new(k, 0), TVal::new(100 + k), &g);
            model.insert(k, (0, 100 + k));
        }
    }
    let mut inside = Vec::new();
    for r in 0..readers {
        let m = map.clone();
        let rk = (key + 1 + r as u64) % nkeys;
        let a = Actor::spawn(&format!("reader-{r}"), 10 + r as u16, |g| g.arm_site(fvf::WIN_TREE_READ_LOCKED, 1), move || {
            let g = m.guard();
            let _ = m.get(&KQ(rk), &g).map(|v| v.get());
        });
        if !a.wait_frozen_or_done(20_000).map_err(|e| format!("INCONCLUSIVE {e}"))? {
            return Err("INCONCLUSIVE the reader did not take the tree read lock (no tree bin?)".into());
        }
        inside.push(a);
    }
    QUIET_PANICS.with(|q| q.set(true));
    let r = std::panic::catch_unwind(std::panic::AssertUnwindSafe(|| {
        let g = map.guard();
        map.compute_if_present(&KQ(key), |_, _| -> Option<TVal> { std::panic::panic_any(Injected) }, &g);
    }));
    QUIET_PANICS.with(|q| q.set(false));
    let _ = last_panic();
    if !matches!(&r, Err(p) if p.is::<Injected>()) {
        return Err("the injected panic did not reach the caller of compute_if_present".into());
    }
    for a in inside {
        a.gate.release();
        a.wait_done(20_000).map_err(|e| format!("a reader that was inside the tree during the panic did not finish: {e}"))?;
        a.join()?;
    }
    let mut st = SeqStats::default();
    audit_map(&map, mode, Some(&model), false, &mut st).map_err(|f| format!("after the panic, once the readers had left: {}", f.detail))?;
    // writers that need the root lock: removals and inserts with rebalancing on the same bin
    let done = Arc::new(AtomicBool::new(false));
    let (m, d) = (map.clone(), done.clone());
    let tid = Arc::new(std::sync::atomic::AtomicI64::new(0));
    let t = tid.clone();
    let h = std::thread::spawn(move || {
        #[cfg(not(miri))]
        t.store(unsafe { libc::syscall(libc::SYS_gettid) } as i64, Ordering::SeqCst);
        let _ = &t;
        let g = m.guard();
        for k in 0..nkeys {
            m.remove(&KQ(k), &g);
        }
        for k in 0..nkeys {
            m.insert(TKey::new(k, 1), TVal::new(100 + k), &g);
        }
        d.store(true, Ordering::SeqCst);
    });
    let t0 = std::time::Instant::now();
    while !done.load(Ordering::SeqCst) {
        if t0.elapsed().as_secs() >= 8 {
            #[cfg(not(miri))]
            {
                let st = thread_state(tid.load(Ordering::SeqCst));
                if st == 'S' {
                    return Err("removals and inserts on the bin by another thread did not return within 8 s and the thread is asleep (state S): the tree lock was left in a state nobody will release".into());
                }
            }
            return Err("INCONCLUSIVE follow-up writer slow".into());
        }
        std::thread::yield_now();
    }
    h.join().map_err(|_| "the follow-up writer panicked".to_string())?;
    for k in 0..nkeys {
        model.insert(k, (1, 100 + k));
    }
    audit_map(&map, mode, Some(&model), false, &mut st).map_err(|f| format!("after the follow-up writes: {}", f.detail))?;
    Ok(())
}

pub fn run(ctx: &Ctx) -> Outcome {
    let mut out = Outcome::new(
        "for each prepared map (random build sequence; hashers uniform/constant/samebin/mixed; list and tree bins) and each operation in \
         {compute_if_present on every key, retain, retain_force, for-loop over iter/keys/values}: panic injected at the i-th callback invocation for EVERY i of a dry run; \
         afterwards: panic reached the caller, inspector (no lock held, lock_state 0), full model comparison, writes from a second thread to the same bins, drop-ledger audit; \
         distinct = distinct (map configuration, operation, i)",
    );
    hook::install();
    install_panic_capture();
    if ctx.args.str("part", "all") == "concurrent" {
        run_concurrent(ctx, &mut out);
        return out;
    }
    if ctx.shard == 0 {
        for mode in [IDENTITY, UNIFORM] {
            for fwd in [1u64, 3, 6, 10, 14] {
                for key in 0..11u64 {
                    out.evaluations += 1;
                    out.add("injections_during_resize", 1);
                    out.distinct.insert(fnv(fnv(fnv(FNV_OFFSET ^ 0x18e, mode as u64), fwd), key));
                    ledger().reset();
                    match guarded(|| during_resize(mode, fwd, key)).unwrap_or_else(Err) {
                        Ok((marker, early)) => {
                            out.add("injections_during_resize_key_bin_already_forwarded", marker as u64);
                            out.add("injections_during_resize_finished_before_resize_ended", early as u64);
                        }
                        Err(e) if e.starts_with("INCONCLUSIVE") => out.inconclusive.push(e),
                        Err(e) => {
                            out.violate("c18/compute-during-resize", format!("hasher {}, resizer stopped after {fwd} forwarded bins, key {key}: {e}", mode_name(mode)), Json::obj().with("check", Json::s("c18")).with("part", Json::s("during-resize")).with("hasher", Json::s(mode_name(mode))).with("forwarded", Json::u(fwd)).with("key", Json::u(key)));
                            return out;
                        }
                    }
                }
            }
        }
    }
    if ctx.shard == 0 {
        for mode in [CONSTANT, SAMEBIN, MODGROUPS] {
            for nkeys in [9u64, 14, 30] {
                for readers in [1usize, 2, 3] {
                    for key in [0u64, nkeys / 2, nkeys - 1] {
                        out.evaluations += 1;
                        out.add("injections_with_readers_inside_the_tree", 1);
                        out.distinct.insert(fnv(fnv(fnv(fnv(FNV_OFFSET ^ 0x18f, mode as u64), nkeys), readers as u64), key));
                        ledger().reset();
                        match guarded(|| with_readers_inside(mode, nkeys, readers, key)).unwrap_or_else(Err) {
                            Ok(()) => {}
                            Err(e) if e.starts_with("INCONCLUSIVE") => out.inconclusive.push(e),
                            Err(e) => {
                                out.violate(
                                    "c18/compute-with-readers-inside",
                                    format!("hasher {}, tree bin of {nkeys} keys, {readers} reader(s) inside the tree, panicking compute_if_present on key {key}: {e}", mode_name(mode)),
                                    Json::obj().with("check", Json::s("c18")).with("part", Json::s("readers-inside")).with("hasher", Json::s(mode_name(mode))).with("keys", Json::u(nkeys)).with("readers", Json::u(readers)).with("key", Json::u(key)),
                                );
                                return out;
                            }
                        }
                    }
                }
            }
        }
    }
    let maps = ctx.q(160u64, 40_000);
    let mut st = SeqStats::default();
    let exhaustive = true;
    'outer: for mi in 0..maps {
        if mi % ctx.shards != ctx.shard {
            continue;
        }
        // the budget bounds the number of prepared maps; every map that is started gets ALL its
        // injection points (a map costs well under a second)
        if !ctx.time_left() {
            out.add("prepared_maps_not_started_for_lack_of_time", 1);
            break 'outer;
        }
        let mut rng0 = Rng::derive(ctx.seed, 0xC18, mi);
        let mode = *rng0.pick(&[UNIFORM, CONSTANT, SAMEBIN, MIXED, CONSTANT]);
        let cap = *rng0.pick(&[0usize, 16, 64, 64]);
        let universe = rng0.range(4, 40);
        let n_ops = rng0.range(4, 70);
        let cfg_desc = format!("{}/cap{}/universe{}/build{}", mode_name(mode), cap, universe, n_ops);
        for op in 0..6u8 {
            // dry run to learn the number of invocations and the keys
            let mut rng = rng0.clone();
            let (map0, model0) = build(mode, cap, universe, n_ops, &mut rng);
            let targets: Vec<u64> = if op == 0 { model0.keys().copied().collect() } else { vec![0] };
            drop(map0);
            for key in targets {
                let mut rng = rng0.clone();
                let (map, mut model) = build(mode, cap, universe, n_ops, &mut rng);
                let (total, _) = run_op(&map, &mut model, op, key, 0);
                drop(map);
                for at in 1..=total {
                    ledger().reset();
                    let mut rng = rng0.clone();
                    let (map, mut model) = build(mode, cap, universe, n_ops, &mut rng);
                    let had_tree = {
                        let g = map.guard();
                        map.verif_dump(&g).bins.iter().any(|b| matches!(b, flurry::verif::BinDump::Tree { .. }))
                    };
                    let (calls, reached) = run_op(&map, &mut model, op, key, at);
                    out.evaluations += 1;
                    out.add("injections", 1);
                    out.add(&format!("injections_{}", OPS[op as usize]), 1);
                    if had_tree {
                        out.add("injections_on_map_with_tree_bin", 1);
                    }
                    out.distinct.insert(fnv(fnv(fnv(fnv_str(FNV_OFFSET, &cfg_desc), op as u64), key), at));
                    let case = format!("{cfg_desc} op={} key={key} panic_at={at}/{total}", OPS[op as usize]);
                    let mut problem: Option<String> = None;
                    if calls != at || !reached {
                        problem = Some(format!("panic at invocation {at} did not reach the caller as injected (callback ran {calls} times)"));
                    }
                    if problem.is_none() {
                        if let Err(f) = audit_map(&map, mode, Some(&model), false, &mut st) {
                            problem = Some(format!("after the panic: {}", f.detail));
                        }
                    }
                    if problem.is_none() {
                        let g = map.guard();
                        let api = Api { map: &map, facade: 0, guard: &g };
                        if let Err(f) = compare_full(&api, &model, universe) {
                            problem = Some(format!("after the panic: {}", f.detail));
                        }
                    }
                    if problem.is_none() {
                        let len = {
                            let g = map.guard();
                            map.verif_table_len(&g)
                        };
                        match second_thread_writes(&map, &hash_bin_keys(mode, &model, key, len)) {
                            Ok(()) => {
                                out.add("second_thread_write_rounds", 1);
                            }
                            Err(e) if e.starts_with("INCONCLUSIVE") => out.inconclusive.push(format!("{case}: {e}")),
                            Err(e) => problem = Some(e),
                        }
                    }
                    if problem.is_none() {
                        if let Err(f) = audit_map(&map, mode, Some(&model), false, &mut st) {
                            problem = Some(format!("after the second thread's writes: {}", f.detail));
                        }
                    }
                    if problem.is_none() {
                        let blocked = problem.is_some();
                        if !blocked {
                            ledger().set_phase(1);
                            drop(map);
                            let l = ledger().report();
                            if !l.errors.is_empty() || l.live != 0 {
                                problem = Some(format!("drop ledger after teardown: errors {:?}, {} instances never dropped", l.errors, l.live));
                            }
                        }
                    } else {
                        // do not drop a map whose lock may be held by nobody: leak it
                        std::mem::forget(map);
                    }
                    if out.samples.is_empty() && op == 1 && at == 2 {
                        out.sample(Json::s(case.clone()));
                    }
                    if let Some(p) = problem {
                        out.violate(
                            format!("c18/{}", OPS[op as usize]),
                            format!("{case}: {p}"),
                            Json::obj().with("check", Json::s("c18")).with("seed", Json::u(ctx.seed)).with("map", Json::u(mi)).with("op", Json::s(OPS[op as usize])).with("key", Json::u(key)).with("panic_at", Json::u(at)),
                        );
                        break 'outer;
                    }
                }
            }
        }
    }
    out.exhaustive = Some(exhaustive);
    // (panics injected while other threads use the map: part `concurrent`, a job of its own,
    // because a hang there is a verdict and is detected by the supervisor)
    out
}

/// Free-run rounds in which some calls are compute_if_present / retain / retain_force whose
/// callback panics (caught by the calling worker). Every such call enters the history as a read
/// of what its callback was shown; at quiescence the inspector must find every lock free, the
/// counter exact, the public API in agreement, the history linearizable and the drop ledger balanced.
fn run_concurrent(ctx: &Ctx, out: &mut Outcome) {
    use crate::freerun::*;
    use flurry::verif as fvf;
    let target = ctx.args.u64("rounds", ctx.q(60, 4000));
    let mut round = ctx.args.u64("first-round", 0);
    let target = target + round;
    while round < target && ctx.time_left() {
        let rs = splitmix(ctx.seed ^ splitmix(ctx.shard.wrapping_mul(0xC18) ^ round) ^ 0x18);
        let mut rng = Rng::new(rs);
        let mut cfg = super::c01::draw(&mut rng, ctx.thorough);
        cfg.set_facade = false;
        cfg.iter_threads = 0;
        cfg.holder_threads = 0;
        cfg.mix.panic_compute = 12;
        cfg.mix.panic_retain = 2;
        cfg.mix.get += 10;
        cfg.mix.clear = 0;
        if rng.chance(2, 3) {
            // crowded bins: readers inside trees while callbacks panic
            cfg.mode = *rng.pick(&CROWDED_MODES);
            cfg.cap = 64;
            cfg.nkeys = rng.range(9, 40);
            cfg.prefill = cfg.nkeys.min(rng.range(8, 20));
            cfg.focus_site = *rng.pick(&[0, fvf::WIN_TREE_READ_LOCKED, fvf::WIN_BEFORE_CLOSURE, fvf::WIN_TREE_ROOT_LOCKED]);
        }
        cfg.threads = cfg.threads.clamp(2, 8);
        let r = run_round(&cfg, rs);
        round += 1;
        out.evaluations += 1;
        out.add("concurrent_rounds_with_injected_panics", 1);
        let mut problem = None;
        if !r.panics.is_empty() {
            problem = Some(format!("a call panicked with something other than the injected payload: {}", r.panics.join("; ")));
        } else if !r.audit_failures.is_empty() {
            problem = Some(format!("at quiescence: {}", r.audit_failures.join("; ")));
        } else if !r.agreement_failures.is_empty() {
            problem = Some(format!("at quiescence: {}", r.agreement_failures.join("; ")));
        } else if !r.ledger.errors.is_empty() || r.ledger.live != 0 {
            problem = Some(format!("drop ledger after teardown: errors {:?}, {} instances never dropped", r.ledger.errors.iter().take(3).collect::<Vec<_>>(), r.ledger.live));
        } else {
            let pre = r.prefill.clone();
            let init = move |k: u64| -> Option<u64> { pre.get(&k).copied() };
            let hr = crate::wgl::check_history(&r.history, &init, 1 << 21);
            out.add("concurrent_key_histories_checked", hr.keys_checked);
            if hr.contended_keys > 0 {
                out.distinct.insert(r.signature);
            }
            if let Some((k, h)) = hr.violation {
                let hs = h.iter().map(|e| format!("t{}[{}..{}]{:?}", e.thread, e.call, e.ret, e.op)).collect::<Vec<_>>().join(" | ");
                problem = Some(format!("the calls on key {k} (a panicking callback is recorded as a read of what it was shown) have no sequential explanation: {hs}"));
            }
        }
        if let Some(p) = problem {
            out.violate(
                "c18/concurrent",
                format!("{p} [round {} of shard {} {}]", round - 1, ctx.shard, cfg.to_json()),
                Json::obj().with("check", Json::s("c18")).with("engine", Json::s("freerun")).with("seed", Json::u(ctx.seed)).with("shard", Json::u(ctx.shard)).with("round", Json::u(round - 1)).with("config", cfg.to_json()),
            );
            break;
        }
    }
}
