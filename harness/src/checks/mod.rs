//! One module per property; every `run` returns an `Outcome` for its shard.
use crate::outcome::Outcome;
use crate::util::Args;
use std::time::{Duration, Instant};

pub mod c01;
pub mod c02;
pub mod c03;
pub mod c04;
pub mod c05;
pub mod c06;
pub mod c07;
pub mod c08;
pub mod c09;
pub mod c10;
pub mod c11;
pub mod c12;
pub mod c13;
pub mod c14;
pub mod c18;
#[cfg(feature = "bulk")]
pub mod c19;
pub mod serialchk;
pub mod stale;
pub mod convoy;

#[derive(Clone, Debug)]
pub struct Ctx {
    pub thorough: bool,
    pub seed: u64,
    pub shard: u64,
    pub shards: u64,
    pub start: Instant,
    pub budget: Duration,
    pub args: Args,
}

impl Ctx {
    pub fn from_args(args: Args) -> Ctx {
        let thorough = args.str("tier", "quick") == "thorough";
        Ctx {
            thorough,
            seed: args.u64("seed", 1),
            shard: args.u64("shard", 0),
            shards: args.u64("shards", 1).max(1),
            start: Instant::now(),
            budget: Duration::from_millis(args.u64("budget-ms", if thorough { 600_000 } else { 25_000 })),
            args,
        }
    }
    pub fn time_left(&self) -> bool {
        self.start.elapsed() < self.budget
    }
    /// pick quick or thorough value
    pub fn q<T>(&self, quick: T, thorough: T) -> T {
        if self.thorough {
            thorough
        } else {
            quick
        }
    }
}

pub fn dispatch(name: &str, ctx: &Ctx) -> Option<Outcome> {
    crate::util::set_label(name);
    Some(match name {
        "c01" => match ctx.args.str("part", "freerun").as_str() {
            "serial" => serialchk::run(ctx, "c01"),
            "stale" => stale::run(ctx),
            "convoy" => convoy::run(ctx),
            _ => c01::run(ctx),
        },
        "c11" => if ctx.args.str("part", "serial") == "hammer" { c11::run(ctx) } else { serialchk::run(ctx, "c11") },
        "c02" => c02::run(ctx),
        "c03" => c03::run(ctx),
        "c04" => c04::run(ctx),
        "c05" => c05::run(ctx),
        "c06" => c06::run(ctx),
        "c07" => c07::run(ctx),
        "c08" => c08::run(ctx),
        "c09" => c09::run(ctx),
        "c10" => if ctx.args.str("part", "all") == "serial" { serialchk::run(ctx, "c10") } else { c10::run(ctx) },
        "c12" => c12::run(ctx),
        "c13" => c13::run(ctx),
        "c14" => c14::run(ctx),
        "c18" => c18::run(ctx),
        #[cfg(feature = "bulk")]
        "c19" => c19::run(ctx),
        _ => return None,
    })
}
