//! C07 — iterators are weakly consistent, also across concurrent resizes.
use super::Ctx;
use crate::api::Map;
use crate::freerun::*;
use crate::hashers::*;
use crate::hook;
use crate::orch::Actor;
use crate::outcome::Outcome;
use crate::types::*;
use crate::util::*;
use flurry::verif as fvf;
use std::collections::{BTreeMap, BTreeSet};
use std::sync::Arc;

fn val_of(k: u64, gen: u64) -> u64 {
    k * 1000 + gen
}

struct Lockstep {
    stable: BTreeMap<u64, u64>,
    /// values the writer may ever write for a volatile key
    volatile_vals: BTreeMap<u64, BTreeSet<u64>>,
}

enum AnyIter<'g> {
    Iter(flurry::iter::Iter<'g, TKey, TVal>),
    Keys(flurry::iter::Keys<'g, TKey, TVal>),
    Values(flurry::iter::Values<'g, TKey, TVal>),
}

struct Running<'g> {
    it: AnyIter<'g>,
    kind: u8,
    yields: Vec<(u64, u64)>,
    done: bool,
    created_phase: &'static str,
    forwarded_seen: u64,
}

impl<'g> Running<'g> {
    fn new(map: &'g Map, g: &'g flurry::Guard<'g>, kind: u8, phase: &'static str) -> Running<'g> {
        let it = match kind {
            0 => AnyIter::Iter(map.iter(g)),
            1 => AnyIter::Keys(map.keys(g)),
            _ => AnyIter::Values(map.values(g)),
        };
        Running { it, kind, yields: Vec::new(), done: false, created_phase: phase, forwarded_seen: 0 }
    }
    fn step(&mut self) {
        if self.done {
            return;
        }
        let f0 = hook::site_hit_count(fvf::EV_ITER_FORWARDED);
        let y = match &mut self.it {
            AnyIter::Iter(i) => i.next().map(|(k, v)| {
                k.verify();
                (k.k, v.get())
            }),
            AnyIter::Keys(i) => i.next().map(|k| {
                k.verify();
                (k.k, u64::MAX)
            }),
            AnyIter::Values(i) => i.next().map(|v| (u64::MAX, v.get())),
        };
        self.forwarded_seen += hook::site_hit_count(fvf::EV_ITER_FORWARDED) - f0;
        match y {
            Some(p) => self.yields.push(p),
            None => self.done = true,
        }
    }
    fn judge(&self, ls: &Lockstep, cap: usize) -> Result<(), String> {
        if !self.done {
            return Err(format!("iterator (kind {}, created {}) did not end within {cap} yields", self.kind, self.created_phase));
        }
        let mut seen: BTreeMap<u64, u32> = BTreeMap::new();
        for (k, v) in &self.yields {
            if self.kind == 2 {
                // values(): count stable values
                continue;
            }
            *seen.entry(*k).or_insert(0) += 1;
            if self.kind == 0 {
                if let Some(sv) = ls.stable.get(k) {
                    if sv != v {
                        return Err(format!("stable key {k} yielded with value {v}, expected {sv}"));
                    }
                } else if !ls.volatile_vals.get(k).map_or(false, |s| s.contains(v)) {
                    return Err(format!("iterator yielded the pair ({k}, {v}) that was never in the map"));
                }
            } else if !ls.stable.contains_key(k) && !ls.volatile_vals.contains_key(k) {
                return Err(format!("iterator yielded key {k} that was never in the map"));
            }
        }
        if self.kind == 2 {
            let mut vals: BTreeMap<u64, u32> = BTreeMap::new();
            for (_, v) in &self.yields {
                *vals.entry(*v).or_insert(0) += 1;
            }
            for (k, sv) in &ls.stable {
                let n = vals.get(sv).copied().unwrap_or(0);
                if n != 1 {
                    return Err(format!("values(): the value of the untouched key {k} was yielded {n} times (iterator created {})", self.created_phase));
                }
            }
            for v in vals.keys() {
                if !ls.stable.values().any(|s| s == v) && !ls.volatile_vals.values().any(|s| s.contains(v)) {
                    return Err(format!("values() yielded {v}, which was never in the map"));
                }
            }
        } else {
            for k in ls.stable.keys() {
                let n = seen.get(k).copied().unwrap_or(0);
                if n != 1 {
                    return Err(format!(
                        "key {k} was present and untouched for the whole iteration but was yielded {n} times (iterator kind {} created {}, {} yields, followed {} forwarding markers)",
                        self.kind, self.created_phase, self.yields.len(), self.forwarded_seen
                    ));
                }
            }
        }
        Ok(())
    }
}

/// B: a writer grows the table (twice) and is stopped after every few forwarded bins; between
/// its stops several iterators created at different moments advance a few steps each.
fn lockstep(mode: u8, cap: usize, nstable: u64, rng: &mut Rng, out: &mut Outcome) -> Result<(), String> {
    let map: Arc<Map> = Arc::new(if cap == 0 { Map::with_hasher(HB::new(mode)) } else { Map::with_capacity_and_hasher(cap, HB::new(mode)) });
    let mut ls = Lockstep { stable: BTreeMap::new(), volatile_vals: BTreeMap::new() };
    // stable keys are spread over the key space; volatile keys interleave with them
    let spread = rng.range(1, 5);
    {
        let g = map.guard();
        for i in 0..nstable {
            let k = i * spread * 2;
            map.insert(TKey::new(k, 0), TVal::new(val_of(k, 0)), &g);
            ls.stable.insert(k, val_of(k, 0));
        }
    }
    let len0 = {
        let g = map.guard();
        map.verif_table_len(&g)
    };
    // the writer: inserts volatile keys (odd), enough for two more generations, removing some
    let n_vol = (len0 as u64 * 3).max(40);
    let vol: Vec<u64> = (0..n_vol).map(|i| i * 2 + 1).collect();
    for &k in &vol {
        let s = ls.volatile_vals.entry(k).or_default();
        s.insert(val_of(k, 1));
        s.insert(val_of(k, 2));
    }
    let m = map.clone();
    let vol2 = vol.clone();
    let stride = rng.range(1, 6);
    let writer = Actor::spawn("writer", 1, |g| g.arm_site(fvf::EV_BIN_FORWARDED, stride), move || {
        let g = m.guard();
        for (i, &k) in vol2.iter().enumerate() {
            m.insert(TKey::new(k, 1), TVal::new(val_of(k, 1)), &g);
            if i % 5 == 4 {
                m.remove(&KQ(vol2[i - 2]), &g);
            }
            if i % 7 == 6 {
                m.insert(TKey::new(vol2[i - 3], 1), TVal::new(val_of(vol2[i - 3], 2)), &g);
            }
        }
    });
    let guard = map.guard();
    let cap_yields = 4 * (nstable as usize + vol.len() * 3) + 64;
    let mut its: Vec<Running<'_>> = Vec::new();
    its.push(Running::new(&map, &guard, rng.below(3) as u8, "before the resize"));
    let mut stops = 0u64;
    let mut created_during = 0;
    loop {
        // advance every live iterator a few steps
        for it in its.iter_mut() {
            for _ in 0..rng.below(4) {
                it.step();
            }
            if it.yields.len() > cap_yields {
                return it.judge(&ls, cap_yields);
            }
        }
        if writer.is_done() {
            break;
        }
        match writer.wait_frozen_or_done(40_000) {
            Ok(true) => {
                stops += 1;
                if created_during < 4 && rng.chance(1, 3) {
                    created_during += 1;
                    its.push(Running::new(&map, &guard, rng.below(3) as u8, "while bins were being forwarded"));
                }
                writer.gate.arm_site(fvf::EV_BIN_FORWARDED, rng.range(1, 8));
                writer.gate.release();
            }
            Ok(false) => break,
            Err(e) => return Err(format!("INCONCLUSIVE {e}")),
        }
    }
    writer.wait_done(40_000).map_err(|e| format!("INCONCLUSIVE {e}"))?;
    writer.join()?;
    its.push(Running::new(&map, &guard, 0, "after the resizes"));
    for it in its.iter_mut() {
        while !it.done && it.yields.len() <= cap_yields {
            it.step();
        }
    }
    let len1 = map.verif_table_len(&guard);
    out.add("lockstep_writer_stops", stops);
    out.add("lockstep_iterators", its.len() as u64);
    let mut crossed = 0;
    for it in &its {
        out.add("lockstep_yields", it.yields.len() as u64);
        out.add("lockstep_forwarding_markers_followed", it.forwarded_seen);
        if it.forwarded_seen > 0 {
            crossed += 1;
        }
        it.judge(&ls, cap_yields)?;
        out.add("stable_keys_verified", ls.stable.len() as u64);
    }
    out.add("lockstep_iterators_that_crossed_tables", crossed);
    if len1 >= 4 * len0 {
        out.add("lockstep_runs_with_two_or_more_generations", 1);
    }
    let c = corrupt_take();
    if !c.is_empty() {
        return Err(c.join("; "));
    }
    Ok(())
}

/// A: everything on one thread — iterator advanced s steps, then enough inserts for 1-3 complete
/// resizes (and tree conversions), repeat.
fn single_thread(mode: u8, cap: usize, nstable: u64, rng: &mut Rng, out: &mut Outcome) -> Result<(), String> {
    let map = if cap == 0 { Map::with_hasher(HB::new(mode)) } else { Map::with_capacity_and_hasher(cap, HB::new(mode)) };
    let mut ls = Lockstep { stable: BTreeMap::new(), volatile_vals: BTreeMap::new() };
    let g = map.guard();
    for i in 0..nstable {
        let k = i * 2;
        map.insert(TKey::new(k, 0), TVal::new(val_of(k, 0)), &g);
        ls.stable.insert(k, val_of(k, 0));
    }
    let mut its = vec![Running::new(&map, &g, rng.below(3) as u8, "at the start")];
    let mut next_vol = 1u64;
    let cap_yields = 100_000;
    let mut rounds = 0;
    while its.iter().any(|i| !i.done) && rounds < 400 {
        rounds += 1;
        for it in its.iter_mut() {
            for _ in 0..rng.range(0, 5) {
                it.step();
            }
        }
        // grow: insert until the table has doubled 1..3 times
        let len = map.verif_table_len(&g).max(1);
        let target = len << rng.range(1, 3);
        if target <= 4096 && rounds < 6 {
            while map.verif_table_len(&g) < target {
                let k = next_vol;
                next_vol += 2;
                map.insert(TKey::new(k, 1), TVal::new(val_of(k, 1)), &g);
                ls.volatile_vals.entry(k).or_default().insert(val_of(k, 1));
                if k % 9 == 1 && k > 20 {
                    map.remove(&KQ(k - 10), &g);
                }
            }
            if rng.chance(1, 2) {
                its.push(Running::new(&map, &g, rng.below(3) as u8, "between resizes"));
            }
        }
    }
    for it in its.iter_mut() {
        while !it.done && it.yields.len() <= cap_yields {
            it.step();
        }
    }
    out.add("single_thread_iterators", its.len() as u64);
    for it in &its {
        out.add("single_thread_yields", it.yields.len() as u64);
        out.add("single_thread_forwarding_markers_followed", it.forwarded_seen);
        it.judge(&ls, cap_yields)?;
        out.add("stable_keys_verified", ls.stable.len() as u64);
    }
    Ok(())
}

/// D: a one-node tree bin (product of the treeify race) whose last node is being removed: the
/// remover is stopped right after it emptied the bin's traversal list; iteration and lookups
/// on other threads must cope with the momentarily empty tree bin.
fn tree_last_node(out: &mut Outcome) -> Result<(), String> {
    let map: Arc<Map> = Arc::new(Map::with_capacity_and_hasher(64, HB::new(CONSTANT)));
    {
        let g = map.guard();
        for k in 0..8 {
            map.insert(TKey::new(k, 0), TVal::new(val_of(k, 0)), &g);
        }
        // an untouched entry in another table? all keys collide under this hasher; keep it simple
    }
    // T1 appends a 9th node and stops before it treeifies the bin
    let m = map.clone();
    let t1 = Actor::spawn("inserter", 1, |g| g.arm_site(fvf::WIN_BEFORE_TREEIFY, 1), move || {
        let g = m.guard();
        m.insert(TKey::new(8, 0), TVal::new(val_of(8, 0)), &g);
    });
    if !t1.wait_frozen_or_done(30_000).map_err(|e| format!("INCONCLUSIVE {e}"))? {
        return Err("INCONCLUSIVE the ninth insert into one bin did not reach the treeify step".into());
    }
    {
        let g = map.guard();
        for k in 1..9 {
            map.remove(&KQ(k), &g);
        }
    }
    t1.gate.release();
    t1.wait_done(30_000).map_err(|e| format!("INCONCLUSIVE {e}"))?;
    t1.join()?;
    let one_node_tree = {
        let g = map.guard();
        let d = map.verif_dump(&g);
        d.bins.iter().any(|b| matches!(b, fvf::BinDump::Tree { list, .. } if list.len() == 1))
    };
    out.add("one_node_tree_bins_built", one_node_tree as u64);
    if !one_node_tree {
        return Err("INCONCLUSIVE the race did not produce a one-node tree bin".into());
    }
    // T2 removes the last node and stops right after `first` became null
    let m = map.clone();
    let t2 = Actor::spawn("remover", 2, |g| g.arm_site(fvf::WIN_TREE_FIRST_STORED, 1), move || {
        let g = m.guard();
        m.remove(&KQ(0), &g);
    });
    let stopped = t2.wait_frozen_or_done(30_000).map_err(|e| format!("INCONCLUSIVE {e}"))?;
    out.add("remover_stopped_with_empty_tree_bin", stopped as u64);
    eprintln!("[fv] c07/tree-last-node: iterating and looking up while the last node of a one-node tree bin is being removed");
    let r = guarded(|| {
        let g = map.guard();
        let n_iter = map.iter(&g).count();
        let n_keys = map.keys(&g).count();
        let n_vals = map.values(&g).count();
        let got = map.get(&KQ(0), &g).map(|v| v.get());
        (n_iter, n_keys, n_vals, got)
    });
    t2.gate.release();
    t2.wait_done(30_000).map_err(|e| format!("INCONCLUSIVE {e}"))?;
    t2.join()?;
    match r {
        Err(p) => Err(format!("iteration over a tree bin whose last node is being removed panicked: {p}")),
        Ok((a, b, c, got)) => {
            if a > 1 || b > 1 || c > 1 {
                return Err(format!("iteration yielded {a}/{b}/{c} entries from a bin that held at most one"));
            }
            if let Some(v) = got {
                if v != val_of(0, 0) {
                    return Err(format!("lookup returned {v}"));
                }
            }
            let g = map.guard();
            if map.iter(&g).count() != 0 || map.len() != 0 {
                return Err("map not empty after the last removal completed".into());
            }
            Ok(())
        }
    }
}

pub fn run(ctx: &Ctx) -> Outcome {
    let mut out = Outcome::new(
        "A single thread: iterators advanced a few steps, then 1-3 complete resizes by inserts on the same thread, repeated; B lock-step: a writer growing the table is stopped every 1-8 forwarded bins while up to six iterators \
         (created before / while / after bins are forwarded, iter/keys/values) advance 0-3 steps each; C free-run: 1-3 iterating threads among 2-8 writers with never-written stable keys; \
         oracle: ends within a logical cap, every key present and untouched for the whole iteration yielded exactly once with its value, no pair that was never in the map (free-run: not before creation / after the yield); \
         distinct = distinct (scenario parameters) for A/B and interleaving signatures of free-run rounds in which an iteration overlapped a resize",
    );
    hook::install();
    install_panic_capture();
    if ctx.args.str("part", "all") == "tree-last-node" {
        out.evaluations += 1;
        out.add("tree_last_node_runs", 1);
        out.distinct.insert(1);
        out.distinct.insert(2);
        out.sample(Json::s("one-node tree bin, remover stopped after first.store(null), iteration on a third thread"));
        match tree_last_node(&mut out) {
            Ok(()) => {}
            Err(e) if e.starts_with("INCONCLUSIVE") => out.inconclusive.push(e),
            Err(e) => out.violate("c07/tree-last-node", e, Json::obj().with("check", Json::s("c07")).with("part", Json::s("tree-last-node"))),
        }
        return out;
    }
    let modes = ALL_MODES;
    // ---- A and B
    let n_ab = ctx.q(400u64, 40_000);
    for i in 0..n_ab {
        if i % ctx.shards != ctx.shard {
            continue;
        }
        if !ctx.time_left() {
            break;
        }
        let mut rng = Rng::derive(ctx.seed, 0xC07, i);
        let mode = *rng.pick(&modes);
        let cap = *rng.pick(&[0usize, 1, 2, 8, 16, 40, 64]);
        let nstable = rng.range(1, 40);
        let which = i % 2;
        ledger().reset();
        let r = guarded(|| if which == 0 { single_thread(mode, cap, nstable, &mut rng, &mut out) } else { lockstep(mode, cap, nstable, &mut rng, &mut out) });
        out.evaluations += 1;
        out.add(if which == 0 { "single_thread_runs" } else { "lockstep_runs" }, 1);
        out.distinct.insert(fnv(fnv(fnv(fnv(FNV_OFFSET ^ 7, which), mode as u64), cap as u64), nstable));
        let desc = Json::obj().with("scenario", Json::s(if which == 0 { "single-thread" } else { "lock-step" })).with("hasher", Json::s(mode_name(mode))).with("cap", Json::u(cap)).with("stable_keys", Json::u(nstable)).with("index", Json::u(i));
        if out.samples.is_empty() && which == 1 {
            out.sample(desc.clone());
        }
        let r = match r {
            Ok(r) => r,
            Err(p) => Err(format!("panicked: {p}")),
        };
        if let Err(e) = r {
            if e.starts_with("INCONCLUSIVE") {
                out.inconclusive.push(e);
                continue;
            }
            out.violate(
                format!("c07/{}", if which == 0 { "single-thread" } else { "lock-step" }),
                format!("{e} [{desc}]"),
                Json::obj().with("check", Json::s("c07")).with("seed", Json::u(ctx.seed)).with("case", desc),
            );
            return out;
        }
    }
    // ---- C free-run
    let target = ctx.args.u64("rounds", ctx.q(150, 5000));
    let mut round = ctx.args.u64("first-round", 0);
    let target = target + round;
    while round < target && ctx.time_left() {
        let rs = splitmix(ctx.seed ^ splitmix(ctx.shard.wrapping_mul(0xC07) ^ round) ^ 0x77);
        let mut rng = Rng::new(rs);
        let mut cfg = super::c01::draw(&mut rng, ctx.thorough);
        cfg.set_facade = false;
        cfg.iter_threads = rng.range(1, 3) as usize;
        cfg.stable = rng.range(2, 12);
        cfg.mix.clear = 0;
        cfg.mix.iterate = 3;
        cfg.threads = cfg.threads.min(8);
        let r = run_round(&cfg, rs);
        round += 1;
        out.evaluations += 1;
        out.add("freerun_rounds", 1);
        let resizes = r.events.iter().filter(|e| e.site == fvf::EV_TABLE_PUBLISHED).count() as u64;
        let fwd = r.events.iter().filter(|e| e.site == fvf::EV_ITER_FORWARDED).count() as u64;
        out.add("freerun_forwarding_markers_followed", fwd);
        let mut problem = None;
        if !r.panics.is_empty() {
            problem = Some(format!("panic: {}", r.panics.join("; ")));
        } else if !r.corrupt.is_empty() {
            problem = Some(r.corrupt.join("; "));
        } else {
            match iter_oracle(&r, &cfg) {
                Ok(st) => {
                    out.add("freerun_iterations", st.iterations);
                    out.add("freerun_yields", st.yields);
                    out.add("stable_keys_verified", st.stable_present_checked);
                    out.add("stable_absent_keys_verified", st.stable_absent_checked);
                    out.add("phantom_checks", st.phantom_checked);
                    if resizes > 0 && fwd > 0 {
                        out.add("freerun_rounds_iterating_across_resize", 1);
                        out.distinct.insert(r.signature);
                    }
                }
                Err(e) => problem = Some(e),
            }
        }
        if let Some(p) = problem {
            out.violate(
                "c07/freerun",
                format!("{p} [round {} of shard {} {}]", round - 1, ctx.shard, cfg.to_json()),
                Json::obj().with("check", Json::s("c07")).with("engine", Json::s("freerun")).with("seed", Json::u(ctx.seed)).with("shard", Json::u(ctx.shard)).with("round", Json::u(round - 1)).with("config", cfg.to_json()),
            );
            break;
        }
    }
    out
}
