//! C19 — optional bulk paths (serde, rayon) match sequential insertion and never panic.
use super::Ctx;
use crate::hashers::*;
use crate::outcome::Outcome;
use crate::util::*;
use flurry::{HashMap, HashSet};
use rayon::prelude::*;
use std::collections::{BTreeMap, BTreeSet};

type SMap = HashMap<String, u64, HB>;
type UMap = HashMap<u64, u64, HB>;
type SSet = HashSet<String, HB>;
type USet = HashSet<u64, HB>;

fn contents_s(m: &SMap) -> BTreeMap<String, u64> {
    let g = m.guard();
    m.iter(&g).map(|(k, v)| (k.clone(), *v)).collect()
}
fn contents_u(m: &UMap) -> BTreeMap<u64, u64> {
    let g = m.guard();
    m.iter(&g).map(|(k, v)| (*k, *v)).collect()
}

fn roundtrip(rng: &mut Rng, out: &mut Outcome) -> Result<(), String> {
    let mode = *rng.pick(&[UNIFORM, CONSTANT, SAMEBIN, MIXED]);
    set_default_mode(mode);
    let n = if rng.chance(1, 5) { 0 } else { rng.range(1, 300) };
    let kind = rng.below(5);
    out.add(["roundtrip_string_map", "roundtrip_int_map", "roundtrip_string_set", "roundtrip_int_set", "roundtrip_through_value"][kind as usize], 1);
    match kind {
        4 => {
            // through serde_json::Value: a deserializer that, unlike the text front end, reports
            // exact lengths (size hints); element types include zero-sized ones
            let g_err = |e: serde_json::Error, what: &str| format!("{what} failed: {e}");
            let m: SMap = HashMap::with_hasher(HB::new(mode));
            let st: USet = HashSet::with_hasher(HB::new(mode));
            let zs: HashSet<(), HB> = HashSet::with_hasher(HB::new(mode));
            let za: HashSet<[u8; 0], HB> = HashSet::with_hasher(HB::new(mode));
            let zv: HashMap<String, (), HB> = HashMap::with_hasher(HB::new(mode));
            let mut model = BTreeMap::new();
            let mut smodel = BTreeSet::new();
            {
                let (g1, g2, g3, g4, g5) = (m.guard(), st.guard(), zs.guard(), za.guard(), zv.guard());
                for _ in 0..n {
                    let k = format!("k{}", rng.below(400));
                    let v = rng.next() >> 12;
                    m.insert(k.clone(), v, &g1);
                    zv.insert(k.clone(), (), &g5);
                    model.insert(k, v);
                    let e = rng.below(500);
                    st.insert(e, &g2);
                    smodel.insert(e);
                }
                if n % 2 == 1 {
                    zs.insert((), &g3);
                    za.insert([], &g4);
                }
            }
            let back: SMap = serde_json::from_value(serde_json::to_value(&m).map_err(|e| g_err(e, "to_value(map)"))?).map_err(|e| g_err(e, "from_value(map)"))?;
            if !(back == m) || contents_s(&back) != model {
                return Err(format!("Value round trip of a {}-entry string map is not equal to the original", model.len()));
            }
            let back: USet = serde_json::from_value(serde_json::to_value(&st).map_err(|e| g_err(e, "to_value(set)"))?).map_err(|e| g_err(e, "from_value(set)"))?;
            let got: BTreeSet<u64> = back.iter(&back.guard()).copied().collect();
            if !(back == st) || got != smodel {
                return Err(format!("Value round trip of a {}-entry integer set is not equal to the original", smodel.len()));
            }
            let back: HashSet<(), HB> = serde_json::from_value(serde_json::to_value(&zs).map_err(|e| g_err(e, "to_value(set of ())"))?).map_err(|e| g_err(e, "from_value(set of ())"))?;
            if back.len() != zs.len() {
                return Err(format!("Value round trip of a set of () has {} entries, the original {}", back.len(), zs.len()));
            }
            let back: HashSet<[u8; 0], HB> = serde_json::from_value(serde_json::to_value(&za).map_err(|e| g_err(e, "to_value(set of [u8; 0])"))?).map_err(|e| g_err(e, "from_value(set of [u8; 0])"))?;
            if back.len() != za.len() {
                return Err(format!("Value round trip of a set of [u8; 0] has {} entries, the original {}", back.len(), za.len()));
            }
            let back: HashMap<String, (), HB> = serde_json::from_value(serde_json::to_value(&zv).map_err(|e| g_err(e, "to_value(map to ())"))?).map_err(|e| g_err(e, "from_value(map to ())"))?;
            if back.len() != zv.len() || !(back == zv) {
                return Err(format!("Value round trip of a map to () has {} entries, the original {}", back.len(), zv.len()));
            }
        }
        0 => {
            let m: SMap = HashMap::with_hasher(HB::new(mode));
            let mut model = BTreeMap::new();
            {
                let g = m.guard();
                for _ in 0..n {
                    let k = format!("k{}\"\\{}", rng.below(400), if rng.chance(1, 8) { "\u{e9}\n" } else { "" });
                    let v = rng.next() >> 12;
                    m.insert(k.clone(), v, &g);
                    model.insert(k, v);
                }
            }
            let s = if rng.chance(1, 2) { serde_json::to_string(&m) } else { serde_json::to_string(&m.pin()) }.map_err(|e| format!("serialising failed: {e}"))?;
            let back: SMap = serde_json::from_str(&s).map_err(|e| format!("deserialising own output failed: {e}; text {}", &s[..s.len().min(200)]))?;
            if !(back == m) || contents_s(&back) != model {
                return Err(format!("round trip of a {}-entry string map is not equal to the original", model.len()));
            }
        }
        1 => {
            let m: UMap = HashMap::with_hasher(HB::new(mode));
            let mut model = BTreeMap::new();
            {
                let g = m.guard();
                for _ in 0..n {
                    let k = rng.below(500);
                    let v = rng.next() >> 12;
                    m.insert(k, v, &g);
                    model.insert(k, v);
                }
            }
            let s = serde_json::to_string(&m).map_err(|e| format!("serialising failed: {e}"))?;
            let back: UMap = serde_json::from_str(&s).map_err(|e| format!("deserialising own output failed: {e}"))?;
            if !(back == m) || contents_u(&back) != model {
                return Err(format!("round trip of a {}-entry integer map is not equal to the original", model.len()));
            }
        }
        2 => {
            let st: SSet = HashSet::with_hasher(HB::new(mode));
            let mut model = BTreeSet::new();
            {
                let g = st.guard();
                for _ in 0..n {
                    let k = format!("e{}", rng.below(400));
                    st.insert(k.clone(), &g);
                    model.insert(k);
                }
            }
            let s = if rng.chance(1, 2) { serde_json::to_string(&st) } else { serde_json::to_string(&st.pin()) }.map_err(|e| format!("serialising failed: {e}"))?;
            let back: SSet = serde_json::from_str(&s).map_err(|e| format!("deserialising own output failed: {e}"))?;
            let g = back.guard();
            let got: BTreeSet<String> = back.iter(&g).cloned().collect();
            if !(back == st) || got != model {
                return Err(format!("round trip of a {}-entry string set is not equal to the original", model.len()));
            }
        }
        _ => {
            let st: USet = HashSet::with_hasher(HB::new(mode));
            let mut model = BTreeSet::new();
            {
                let g = st.guard();
                for _ in 0..n {
                    let k = rng.below(500);
                    st.insert(k, &g);
                    model.insert(k);
                }
            }
            let s = serde_json::to_string(&st).map_err(|e| format!("serialising failed: {e}"))?;
            let back: USet = serde_json::from_str(&s).map_err(|e| format!("deserialising own output failed: {e}"))?;
            let g = back.guard();
            let got: BTreeSet<u64> = back.iter(&g).copied().collect();
            if !(back == st) || got != model {
                return Err(format!("round trip of a {}-entry integer set is not equal to the original", model.len()));
            }
        }
    }
    Ok(())
}

/// Well-formed JSON objects / arrays over a small alphabet with repeated keys, plus inputs of
/// the wrong shape: the result must be a value (consistent with the input) or an error.
fn generated_input(rng: &mut Rng, out: &mut Outcome) -> Result<(), String> {
    set_default_mode(*rng.pick(&[UNIFORM, CONSTANT, SAMEBIN]));
    let n = rng.below(14);
    let alphabet = rng.range(1, 6);
    let shape = rng.below(10);
    if shape < 6 {
        // object with (possibly) repeated keys
        let mut supplied: BTreeMap<String, Vec<u64>> = BTreeMap::new();
        let mut parts = Vec::new();
        for _ in 0..n {
            let k = format!("{}", (b'a' + rng.below(alphabet) as u8) as char);
            let v = rng.below(100);
            supplied.entry(k.clone()).or_default().push(v);
            parts.push(format!("\"{k}\":{v}"));
        }
        let text = format!("{{{}}}", parts.join(","));
        let repeated = supplied.values().any(|v| v.len() > 1);
        out.add(if repeated { "inputs_with_repeated_key" } else { "inputs_object_unique_keys" }, 1);
        let r = guarded(|| serde_json::from_str::<SMap>(&text));
        match r {
            Err(p) => return Err(format!("from_str panicked on the well-formed input {text}: {p}")),
            Ok(Err(_e)) => {
                out.add("inputs_rejected_with_error", 1);
            }
            Ok(Ok(m)) => {
                let got = contents_s(&m);
                let keys: BTreeSet<&String> = got.keys().collect();
                let want: BTreeSet<&String> = supplied.keys().collect();
                if keys != want {
                    return Err(format!("from_str({text}) produced keys {:?}", keys));
                }
                for (k, v) in &got {
                    if !supplied[k].contains(v) {
                        return Err(format!("from_str({text}) maps {k} to {v}, which was never supplied for it"));
                    }
                }
                if m.len() != got.len() {
                    return Err(format!("from_str({text}): len() = {} but {} entries iterate", m.len(), got.len()));
                }
            }
        }
    } else if shape < 8 {
        // array with repeated elements into a set
        let items: Vec<u64> = (0..n).map(|_| rng.below(alphabet)).collect();
        let text = format!("[{}]", items.iter().map(|x| x.to_string()).collect::<Vec<_>>().join(","));
        out.add("inputs_array_for_set", 1);
        match guarded(|| serde_json::from_str::<USet>(&text)) {
            Err(p) => return Err(format!("from_str::<HashSet> panicked on {text}: {p}")),
            Ok(Err(_)) => out.add("inputs_rejected_with_error", 1),
            Ok(Ok(s)) => {
                let g = s.guard();
                let got: BTreeSet<u64> = s.iter(&g).copied().collect();
                let want: BTreeSet<u64> = items.iter().copied().collect();
                if got != want || s.len() != want.len() {
                    return Err(format!("from_str::<HashSet>({text}) produced {:?}", got));
                }
            }
        }
    } else {
        // wrong shapes and truncated inputs: error or value, never a panic
        let texts = ["[1,2", "{\"a\":}", "{\"a\":\"x\"}", "[\"a\",1]", "{\"a\":1,}", "null", "3", "{\"a\":{\"b\":1}}", "[[1]]", "{\"a\":1,\"a\":\"x\"}", "{\"a\":1,\"a\":2,\"a\":3}"];
        let text = *rng.pick(&texts);
        out.add("inputs_malformed_or_wrong_type", 1);
        if let Err(p) = guarded(|| {
            let _ = serde_json::from_str::<SMap>(text).map(|m| m.len());
            let _ = serde_json::from_str::<USet>(text).map(|m| m.len());
            let _ = serde_json::from_str::<SSet>(text).map(|m| m.len());
        }) {
            return Err(format!("from_str panicked on {text}: {p}"));
        }
    }
    Ok(())
}

fn rayon_case(rng: &mut Rng, out: &mut Outcome) -> Result<(), String> {
    let mode = *rng.pick(&[UNIFORM, CONSTANT, SAMEBIN, MIXED, IDENTITY]);
    let threads = *rng.pick(&[1usize, 2, 4, 16]);
    let n = rng.below(ctx_max_items());
    let universe = rng.range(1, 200);
    let items: Vec<(u64, u64)> = (0..n).map(|i| (rng.below(universe), i)).collect();
    let mut supplied: BTreeMap<u64, Vec<u64>> = BTreeMap::new();
    for (k, v) in &items {
        supplied.entry(*k).or_default().push(*v);
    }
    let pool = rayon::ThreadPoolBuilder::new().num_threads(threads).build().map_err(|e| e.to_string())?;
    let variant = rng.below(7);
    out.add(["par_from_iter_map", "par_extend_map_mut", "par_extend_map_ref", "par_extend_hashmapref", "par_from_iter_set", "par_extend_set", "par_extend_hashsetref"][variant as usize], 1);
    out.add(&format!("pool_threads_{threads}"), 1);
    let check_map = |m: &UMap, pre: &BTreeMap<u64, u64>| -> Result<(), String> {
        let got = contents_u(m);
        let mut want_keys: BTreeSet<u64> = supplied.keys().copied().collect();
        want_keys.extend(pre.keys());
        if got.keys().copied().collect::<BTreeSet<u64>>() != want_keys {
            return Err(format!("key set differs from sequential insertion: {} keys, expected {}", got.len(), want_keys.len()));
        }
        for (k, v) in &got {
            let ok = supplied.get(k).map_or(false, |s| s.contains(v)) || (!supplied.contains_key(k) && pre.get(k) == Some(v));
            if !ok {
                return Err(format!("key {k} is mapped to {v}, which was not supplied for it"));
            }
        }
        if m.len() != got.len() {
            return Err(format!("len() = {} but {} entries iterate", m.len(), got.len()));
        }
        let g = m.guard();
        let d = m.verif_dump(&g);
        let (a, _) = crate::inspect::audit(&d, None, m.len(), m.is_empty());
        if !a.ok() {
            return Err(a.failures.join("; "));
        }
        Ok(())
    };
    let mut pre = BTreeMap::new();
    let prefill = |m: &UMap, pre: &mut BTreeMap<u64, u64>, rng: &mut Rng| {
        let g = m.guard();
        for _ in 0..rng.below(20) {
            // half of the pre-existing keys are also mentioned by the parallel items (their old
            // value 7 is never among the supplied ones and must be replaced), half are not
            let k = if rng.chance(1, 2) { rng.below(universe) } else { rng.below(universe) + 1000 };
            m.insert(k, 7, &g);
            pre.insert(k, 7);
        }
    };
    let r = guarded(|| -> Result<(), String> {
        set_default_mode(mode);
        match variant {
            0 => {
                // HB::default() runs on pool threads too: install the mode there
                let m: UMap = pool.install(|| {
                    let m: UMap = HashMap::with_hasher(HB::new(mode));
                    let mut r = &m;
                    r.par_extend(items.clone().into_par_iter());
                    m
                });
                check_map(&m, &pre)?;
                // the real from_par_iter (hasher from Default on the calling thread)
                let m2: UMap = pool.install(|| {
                    set_default_mode(mode);
                    items.clone().into_par_iter().collect()
                });
                check_map(&m2, &pre)
            }
            1 => {
                let mut m: UMap = HashMap::with_capacity_and_hasher(*rng.pick(&[0usize, 1, 64]), HB::new(mode));
                prefill(&m, &mut pre, rng);
                pool.install(|| m.par_extend(items.clone().into_par_iter()));
                check_map(&m, &pre)
            }
            2 => {
                let m: UMap = HashMap::with_hasher(HB::new(mode));
                prefill(&m, &mut pre, rng);
                pool.install(|| {
                    let mut r = &m;
                    r.par_extend(items.clone().into_par_iter())
                });
                check_map(&m, &pre)
            }
            3 => {
                let m: UMap = HashMap::with_hasher(HB::new(mode));
                prefill(&m, &mut pre, rng);
                pool.install(|| {
                    let mut r = m.pin();
                    r.par_extend(items.clone().into_par_iter())
                });
                check_map(&m, &pre)
            }
            _ => {
                let keys: Vec<u64> = items.iter().map(|x| x.0).collect();
                let want: BTreeSet<u64> = keys.iter().copied().collect();
                let s: USet = match variant {
                    4 => pool.install(|| {
                        set_default_mode(mode);
                        keys.clone().into_par_iter().collect()
                    }),
                    5 => {
                        let mut s: USet = HashSet::with_hasher(HB::new(mode));
                        pool.install(|| s.par_extend(keys.clone().into_par_iter()));
                        let s2: USet = HashSet::with_hasher(HB::new(mode));
                        pool.install(|| {
                            let mut r = &s2;
                            r.par_extend(keys.clone().into_par_iter())
                        });
                        if !(s == s2) {
                            return Err("par_extend on HashSet and &HashSet disagree".into());
                        }
                        s
                    }
                    _ => {
                        let s: USet = HashSet::with_hasher(HB::new(mode));
                        pool.install(|| {
                            let mut r = s.pin();
                            r.par_extend(keys.clone().into_par_iter())
                        });
                        s
                    }
                };
                let g = s.guard();
                let got: BTreeSet<u64> = s.iter(&g).copied().collect();
                if got != want || s.len() != want.len() {
                    return Err(format!("parallel set construction yields {} keys, sequential insertion {}", got.len(), want.len()));
                }
                Ok(())
            }
        }
    });
    match r {
        Ok(r) => r.map_err(|e| format!("variant {variant}, {} items over {universe} keys, hasher {}, pool of {threads}: {e}", items.len(), mode_name(mode))),
        Err(p) => Err(format!("parallel bulk operation panicked: {p}")),
    }
}

fn ctx_max_items() -> u64 {
    3000
}

pub fn run(ctx: &Ctx) -> Outcome {
    let mut out = Outcome::new(
        "serde: random maps/sets (0..=300 entries, string and integer keys, 4 hashers) serialised and deserialised (map, set and pinned references), \
         generated JSON objects/arrays over an alphabet of 1..=6 keys with repetitions, malformed and wrongly typed inputs (value or error, never a panic; values must have been supplied for their key); \
         rayon: item multisets with duplicates through from_par_iter / par_extend on owned, borrowed and pinned maps and sets with pools of 1/2/4/16 threads compared with sequential insertion; \
         distinct = distinct generated inputs (hash of the case parameters)",
    );
    install_panic_capture();
    let target = ctx.q(3000u64, 4_000_000);
    let mut i = 0u64;
    while i < target && ctx.time_left() {
        let mut rng = Rng::derive(ctx.seed, 0xC19 + ctx.shard, i);
        i += 1;
        let which = i % 4;
        let before = rng.clone().next();
        QUIET_PANICS.with(|q| q.set(true));
        let r = match which {
            0 => match guarded(std::panic::AssertUnwindSafe(|| roundtrip(&mut rng, &mut out))) {
                Ok(r) => r.map_err(|e| ("roundtrip", e)),
                Err(p) => Err(("roundtrip", format!("serialising or deserialising a well-formed value panicked: {p}"))),
            },
            1 | 2 => generated_input(&mut rng, &mut out).map_err(|e| ("deserialize", e)),
            _ => rayon_case(&mut rng, &mut out).map_err(|e| ("rayon", e)),
        };
        QUIET_PANICS.with(|q| q.set(false));
        out.evaluations += 1;
        out.distinct.insert(fnv(fnv(FNV_OFFSET, which), before));
        if let Err((part, e)) = r {
            let sig = if e.contains("panicked") { format!("c19/{part}/panic") } else { format!("c19/{part}") };
            out.violate(sig, e, Json::obj().with("check", Json::s("c19")).with("seed", Json::u(ctx.seed)).with("shard", Json::u(ctx.shard)).with("case", Json::u(i - 1)));
            break;
        }
    }
    out.sample(Json::s("{\"a\":1,\"b\":2,\"a\":3} -> HashMap<String,u64>: Ok with a in {1,3} or Err, never a panic"));
    out
}
