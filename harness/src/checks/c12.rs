//! C12 — reads never block and never take locks.
//! Fault enumeration: one writer operation is suspended at its j-th instrumented step, for
//! EVERY j of a dry run, and a battery of reads runs alone on another thread.
use super::Ctx;
use crate::hashers::*;
use crate::hook;
use crate::orch::Actor;
use crate::outcome::Outcome;
use crate::util::*;
use flurry::verif as fvf;
use flurry::HashMap;
use std::collections::BTreeMap;
use std::sync::Arc;

type UMap = HashMap<u64, u64, HB>;
type Model = BTreeMap<u64, u64>;

pub struct Scenario {
    pub name: &'static str,
    pub mode: u8,
    pub cap: usize,
    pub keys: Vec<u64>,
    pub op: fn(&UMap),
}

fn s_keys(r: std::ops::Range<u64>) -> Vec<u64> {
    r.collect()
}

pub fn scenarios() -> Vec<Scenario> {
    vec![
        Scenario { name: "insert into an empty bin (CAS)", mode: IDENTITY, cap: 16, keys: vec![1, 2, 3], op: |m| { let g = m.guard(); m.insert(7, 700, &g); } },
        Scenario { name: "insert appended to a list bin", mode: IDENTITY, cap: 16, keys: vec![1, 33, 65, 2], op: |m| { let g = m.guard(); m.insert(97, 700, &g); } },
        Scenario { name: "insert replacing a value in a list bin", mode: IDENTITY, cap: 16, keys: vec![1, 33, 65, 2], op: |m| { let g = m.guard(); m.insert(33, 700, &g); } },
        Scenario { name: "try_insert refused in a list bin", mode: IDENTITY, cap: 16, keys: vec![1, 33, 65], op: |m| { let g = m.guard(); let _ = m.try_insert(65, 700, &g); } },
        Scenario { name: "insert that resizes 16 -> 32 (list bins)", mode: IDENTITY, cap: 0, keys: vec![0, 16, 1, 17, 33, 2, 3, 4, 5, 6, 7], op: |m| { let g = m.guard(); m.insert(100, 700, &g); } },
        Scenario { name: "insert that treeifies a bin (9th colliding key)", mode: CONSTANT, cap: 64, keys: s_keys(0..8), op: |m| { let g = m.guard(); m.insert(8, 700, &g); } },
        Scenario { name: "insert into a tree bin with rebalancing", mode: CONSTANT, cap: 64, keys: s_keys(0..12), op: |m| { let g = m.guard(); m.insert(12, 700, &g); } },
        Scenario { name: "insert replacing a value in a tree bin", mode: SAMEBIN, cap: 64, keys: s_keys(0..12), op: |m| { let g = m.guard(); m.insert(5, 700, &g); } },
        Scenario { name: "remove the head of a list bin", mode: IDENTITY, cap: 16, keys: vec![1, 33, 65, 2], op: |m| { let g = m.guard(); m.remove(&1, &g); } },
        Scenario { name: "remove the middle of a list bin", mode: IDENTITY, cap: 16, keys: vec![1, 33, 65, 2], op: |m| { let g = m.guard(); m.remove(&33, &g); } },
        Scenario { name: "remove_entry of the tail of a list bin", mode: IDENTITY, cap: 16, keys: vec![1, 33, 65, 2], op: |m| { let g = m.guard(); m.remove_entry(&65, &g); } },
        Scenario { name: "remove from a tree bin with rebalancing", mode: CONSTANT, cap: 64, keys: s_keys(0..14), op: |m| { let g = m.guard(); m.remove(&3, &g); } },
        Scenario { name: "remove the root region of a tree bin", mode: SAMEBIN, cap: 64, keys: s_keys(0..20), op: |m| { let g = m.guard(); m.remove(&7, &g); m.remove(&3, &g); } },
        Scenario { name: "removals that shrink a tree bin back to a list", mode: CONSTANT, cap: 64, keys: s_keys(0..9), op: |m| { let g = m.guard(); for k in 0..7 { m.remove(&k, &g); } } },
        Scenario { name: "compute replacing in a list bin", mode: IDENTITY, cap: 16, keys: vec![1, 33, 65], op: |m| { let g = m.guard(); m.compute_if_present(&33, |_, v| Some(v + 1), &g); } },
        Scenario { name: "compute removing from a list bin", mode: IDENTITY, cap: 16, keys: vec![1, 33, 65], op: |m| { let g = m.guard(); m.compute_if_present(&33, |_, _| None, &g); } },
        Scenario { name: "compute replacing in a tree bin", mode: CONSTANT, cap: 64, keys: s_keys(0..12), op: |m| { let g = m.guard(); m.compute_if_present(&4, |_, v| Some(v + 1), &g); } },
        Scenario { name: "compute removing from a tree bin (down to untreeify)", mode: CONSTANT, cap: 64, keys: s_keys(0..9), op: |m| { let g = m.guard(); for k in 2..8 { m.compute_if_present(&k, |_, _| None, &g); } } },
        Scenario { name: "remove from a tree bin of 100 keys with rebalancing", mode: CONSTANT, cap: 64, keys: s_keys(0..100), op: |m| { let g = m.guard(); m.remove(&37, &g); m.remove(&99, &g); } },
        Scenario { name: "insert into a tree bin of 100 keys", mode: SAMEBIN, cap: 64, keys: s_keys(0..100), op: |m| { let g = m.guard(); m.insert(100, 700, &g); m.insert(101, 700, &g); } },
        Scenario { name: "clear over list and tree bins", mode: SPLITTING, cap: 128, keys: s_keys(0..30), op: |m| { let g = m.guard(); m.clear(&g); } },
        Scenario { name: "reserve moving list bins and a tree bin (64 -> 256)", mode: SPLITTING, cap: 64, keys: s_keys(0..30), op: |m| { let g = m.guard(); m.reserve(150, &g); } },
        Scenario { name: "reserve moving a tree bin that stays whole", mode: SAMEBIN, cap: 64, keys: s_keys(0..14), op: |m| { let g = m.guard(); m.reserve(100, &g); } },
        Scenario { name: "retain removing every third key (list and tree bins)", mode: SPLITTING, cap: 64, keys: s_keys(0..24), op: |m| { let g = m.guard(); m.retain(|k, _| k % 3 != 0, &g); } },
        Scenario { name: "retain_force emptying a tree bin", mode: CONSTANT, cap: 64, keys: s_keys(0..10), op: |m| { let g = m.guard(); m.retain_force(|_, _| false, &g); } },
    ]
}

fn build(s: &Scenario) -> (Arc<UMap>, Model) {
    let m: UMap = if s.cap == 0 { HashMap::with_hasher(HB::new(s.mode)) } else { HashMap::with_capacity_and_hasher(s.cap, HB::new(s.mode)) };
    let mut model = Model::new();
    {
        let g = m.guard();
        for &k in &s.keys {
            m.insert(k, 1000 + k, &g);
            model.insert(k, 1000 + k);
        }
    }
    (Arc::new(m), model)
}

fn contents(m: &UMap) -> Model {
    let g = m.guard();
    m.iter(&g).map(|(k, v)| (*k, *v)).collect()
}

/// The reads. Returns (number of probes, error).
fn battery(m: &UMap, other: &UMap, pre: &Model, post: &Model, extra_absent: &[u64]) -> (u64, Option<String>) {
    let g = m.guard();
    let mut n = 0u64;
    let allowed = |k: u64, got: Option<u64>| -> bool { got == pre.get(&k).copied() || got == post.get(&k).copied() };
    let mut all: Vec<u64> = pre.keys().chain(post.keys()).copied().collect();
    all.sort();
    all.dedup();
    for &k in all.iter().chain(extra_absent) {
        let got = m.get(&k, &g).copied();
        n += 1;
        if !allowed(k, got) {
            return (n, Some(format!("get({k}) returned {:?}; before the writer's operation the key held {:?}, after it {:?}", got, pre.get(&k), post.get(&k))));
        }
        let kv = m.get_key_value(&k, &g).map(|(a, b)| (*a, *b));
        n += 1;
        if let Some((a, _)) = kv {
            if a != k {
                return (n, Some(format!("get_key_value({k}) returned key {a}")));
            }
        }
        if !allowed(k, kv.map(|x| x.1)) {
            return (n, Some(format!("get_key_value({k}) returned {:?}", kv)));
        }
        let c = m.contains_key(&k, &g);
        n += 1;
        if c != pre.contains_key(&k) && c != post.contains_key(&k) {
            return (n, Some(format!("contains_key({k}) = {c}")));
        }
    }
    for kind in 0..3 {
        let mut seen: BTreeMap<u64, u32> = BTreeMap::new();
        let mut vals: BTreeMap<u64, u32> = BTreeMap::new();
        let mut count = 0usize;
        let cap = 8 * (all.len() + 8);
        match kind {
            0 => {
                for (k, v) in m.iter(&g) {
                    *seen.entry(*k).or_insert(0) += 1;
                    if !allowed(*k, Some(*v)) {
                        return (n, Some(format!("iter() yielded ({k}, {v}), which is neither the state before nor after the writer's operation")));
                    }
                    count += 1;
                    if count > cap {
                        return (n, Some("iter() does not end".into()));
                    }
                }
            }
            1 => {
                for k in m.keys(&g) {
                    *seen.entry(*k).or_insert(0) += 1;
                    count += 1;
                    if count > cap {
                        return (n, Some("keys() does not end".into()));
                    }
                }
            }
            _ => {
                for v in m.values(&g) {
                    *vals.entry(*v).or_insert(0) += 1;
                    count += 1;
                    if count > cap {
                        return (n, Some("values() does not end".into()));
                    }
                }
            }
        }
        n += 1;
        for &k in &all {
            let stable = pre.get(&k).is_some() && pre.get(&k) == post.get(&k);
            if kind < 2 {
                let c = seen.get(&k).copied().unwrap_or(0);
                if stable && c != 1 {
                    return (n, Some(format!("{} yielded the untouched key {k} {c} times", if kind == 0 { "iter()" } else { "keys()" })));
                }
                if !pre.contains_key(&k) && !post.contains_key(&k) && c != 0 {
                    return (n, Some(format!("iteration yielded key {k}, which is in the map neither before nor after")));
                }
            } else if stable {
                let c = vals.get(&pre[&k]).copied().unwrap_or(0);
                if c != 1 {
                    return (n, Some(format!("values() yielded the value of the untouched key {k} {c} times")));
                }
            }
        }
        for k in seen.keys() {
            if !all.contains(k) {
                return (n, Some(format!("iteration yielded the unknown key {k}")));
            }
        }
    }
    let l = m.len();
    n += 1;
    if l > pre.len().max(post.len()) + 1 || l + 1 < pre.len().min(post.len()) {
        // len() is a relaxed counter read; it may lag by the one operation in flight only for
        // single-key writers. Bulk writers (clear, retain) adjust it once at the end.
        if pre.len().abs_diff(post.len()) <= 1 {
            return (n, Some(format!("len() = {l} while the map holds {} entries before and {} after the operation in flight", pre.len(), post.len())));
        }
    }
    let _ = m.is_empty();
    // equality in both directions (must terminate; the answer depends on the moment)
    let _ = m == other;
    let _ = other == m;
    n += 3;
    (n, None)
}

enum Verdict {
    Ok(u64, u64),
    Violation(String),
    Inconclusive(String),
}

fn experiment(s: &Scenario, j: u64, post: &Model) -> Verdict {
    let (map, pre) = build(s);
    let other: Arc<UMap> = Arc::new({
        let o: UMap = HashMap::with_hasher(HB::new(s.mode));
        let g = o.guard();
        for (k, v) in &pre {
            o.insert(*k, *v, &g);
        }
        drop(g);
        o
    });
    let m = map.clone();
    let op = s.op;
    let writer = Actor::spawn("writer", 1, |g| g.arm_step(j), move || op(&m));
    match writer.wait_frozen_or_done(20_000) {
        Ok(true) => {}
        Ok(false) => {
            let _ = writer.join();
            return Verdict::Inconclusive(format!("writer finished before reaching step {j}"));
        }
        Err(e) => return Verdict::Inconclusive(e),
    }
    let frozen_site = writer.gate.frozen_site.load(std::sync::atomic::Ordering::SeqCst);
    let result: Arc<std::sync::Mutex<Option<(u64, Option<String>)>>> = Arc::new(std::sync::Mutex::new(None));
    let (m, o, pre2, post2, r2) = (map.clone(), other.clone(), pre.clone(), post.clone(), result.clone());
    let prober = Actor::spawn("reader", 2, |_| {}, move || {
        let r = battery(&m, &o, &pre2, &post2, &[9_999, 1 << 33, 77]);
        *r2.lock().unwrap() = Some(r);
    });
    let verdict = match prober.wait_done(30_000) {
        Ok(()) => {
            let steps = prober.gate.steps.load(std::sync::atomic::Ordering::SeqCst);
            let locks = prober.gate.lock_sites.load(std::sync::atomic::Ordering::SeqCst);
            let r = result.lock().unwrap().take();
            if locks > 0 {
                Verdict::Violation(format!("a read reached {locks} lock/park site(s) while the writer was suspended at step {j} (site {frozen_site})"))
            } else {
                match r {
                    Some((n, None)) => Verdict::Ok(n, steps),
                    Some((_, Some(e))) => Verdict::Violation(format!("with the writer suspended at step {j} (site {frozen_site}): {e}")),
                    None => Verdict::Violation(format!("the reads panicked with the writer suspended at step {j} (site {frozen_site})")),
                }
            }
        }
        Err(_) => {
            // blocked? two samples of the reader's step counter 2 s apart and its scheduler state
            let s1 = prober.gate.steps.load(std::sync::atomic::Ordering::SeqCst);
            std::thread::sleep(std::time::Duration::from_secs(2));
            let s2 = prober.gate.steps.load(std::sync::atomic::Ordering::SeqCst);
            let st = prober.thread_state();
            let locks = prober.gate.lock_sites.load(std::sync::atomic::Ordering::SeqCst);
            if s1 == s2 && st == 'S' {
                Verdict::Violation(format!(
                    "a read did not return while the writer was suspended at step {j} (site {frozen_site}): the reading thread is asleep (state S) and made no step in 2 s; it had reached {locks} lock/park site(s)"
                ))
            } else if s2 > s1 + 1_000_000 {
                Verdict::Violation(format!("a read is spinning without bound while the writer is suspended at step {j} (site {frozen_site}): {} steps in 2 s", s2 - s1))
            } else {
                Verdict::Inconclusive(format!("reader slow at step {j}: steps {s1} -> {s2}, state {st}"))
            }
        }
    };
    writer.gate.release();
    match &verdict {
        Verdict::Ok(..) => {
            let _ = prober.join();
            if writer.wait_done(20_000).is_err() {
                return Verdict::Inconclusive(format!("writer did not finish after being released at step {j}"));
            }
            let _ = writer.join();
            // the operation must still complete correctly after the pause
            if contents(&map) != *post {
                return Verdict::Violation(format!("after resuming from step {j} the writer's operation left {:?}, expected {:?}", contents(&map), post));
            }
        }
        _ => {
            // leave the stuck threads behind; the process ends soon
            prober.abandon();
            writer.abandon();
            std::mem::forget(map);
        }
    }
    verdict
}

/// Iterators that are older than the table: created (and advanced one step) before the table is
/// grown underneath them, then drained on their own thread while the writer of scenario `s` is
/// suspended at its step `j`. They reach every bin through a forwarding marker.
fn old_iterators(s: &Scenario, j: u64, post: &Model) -> Verdict {
    use std::sync::atomic::{AtomicU8, Ordering};
    let (map, pre) = build(s);
    let phase = Arc::new(AtomicU8::new(0));
    let result: Arc<std::sync::Mutex<Option<Result<u64, String>>>> = Arc::new(std::sync::Mutex::new(None));
    let (m, ph, res, pre2, post2) = (map.clone(), phase.clone(), result.clone(), pre.clone(), post.clone());
    let prober = Actor::spawn("old-iterators", 2, |_| {}, move || {
        let g = m.guard();
        let mut it = m.iter(&g);
        let ks = m.keys(&g);
        let vs = m.values(&g);
        let mut seen_i: BTreeMap<u64, u32> = BTreeMap::new();
        let mut seen_k: BTreeMap<u64, u32> = BTreeMap::new();
        let mut nvals = 0usize;
        if let Some((k, _)) = it.next() {
            *seen_i.entry(*k).or_insert(0) += 1;
        }
        // (iter() has taken one step and may stand inside a bin of the old table; keys() and
        // values() have not looked at the table yet and will meet forwarding markers only)
        ph.store(1, Ordering::SeqCst);
        let t0 = std::time::Instant::now();
        while ph.load(Ordering::SeqCst) != 2 && t0.elapsed().as_secs() < 60 {
            std::thread::yield_now();
        }
        let cap = 8 * (pre2.len() + 16);
        let mut n = 0u64;
        let r = (|| {
            for (k, v) in it {
                *seen_i.entry(*k).or_insert(0) += 1;
                n += 1;
                if pre2.get(k) != Some(v) && post2.get(k) != Some(v) {
                    return Err(format!("an iterator created before the table grew yielded ({k}, {v}), which is neither the state before nor after the writer's operation"));
                }
                if n as usize > cap {
                    return Err("an iterator created before the table grew does not end".to_string());
                }
            }
            for k in ks {
                *seen_k.entry(*k).or_insert(0) += 1;
                n += 1;
                if n as usize > 2 * cap {
                    return Err("keys() created before the table grew does not end".to_string());
                }
            }
            for _ in vs {
                nvals += 1;
                n += 1;
                if n as usize > 3 * cap {
                    return Err("values() created before the table grew does not end".to_string());
                }
            }
            for (k, v) in &pre2 {
                let untouched = post2.get(k) == Some(v);
                for (name, seen) in [("iter()", &seen_i), ("keys()", &seen_k)] {
                    let c = seen.get(k).copied().unwrap_or(0);
                    if c > 1 || (untouched && c != 1) {
                        return Err(format!("{name} created before the table grew yielded key {k} {c} times (the writer's operation {} it)", if untouched { "does not touch" } else { "touches" }));
                    }
                }
            }
            let untouched = pre2.iter().filter(|(k, v)| post2.get(k) == Some(v)).count();
            if nvals < untouched || nvals > pre2.len().max(post2.len()) {
                return Err(format!("values() created before the table grew yielded {nvals} values, {untouched} entries are untouched"));
            }
            Ok(n)
        })();
        *res.lock().unwrap() = Some(r);
    });
    let t0 = std::time::Instant::now();
    while phase.load(Ordering::SeqCst) != 1 {
        if t0.elapsed().as_secs() > 20 || prober.is_done() {
            prober.abandon();
            return Verdict::Inconclusive("the iterating thread did not create its iterators".into());
        }
        std::thread::yield_now();
    }
    {
        let g = map.guard();
        map.reserve(pre.len() * 8 + 200, &g);
    }
    let m = map.clone();
    let op = s.op;
    let writer = Actor::spawn("writer", 1, |g| g.arm_step(j), move || op(&m));
    let frozen = match writer.wait_frozen_or_done(20_000) {
        Ok(f) => f,
        Err(e) => {
            phase.store(2, Ordering::SeqCst);
            return Verdict::Inconclusive(e);
        }
    };
    let frozen_site = writer.gate.frozen_site.load(Ordering::SeqCst);
    phase.store(2, Ordering::SeqCst);
    let verdict = match prober.wait_done(30_000) {
        Ok(()) => {
            let steps = prober.gate.steps.load(Ordering::SeqCst);
            let locks = prober.gate.lock_sites.load(Ordering::SeqCst);
            match result.lock().unwrap().take() {
                _ if locks > 0 => Verdict::Violation(format!("iterators created before the table grew reached {locks} lock/park site(s) while the writer was suspended at step {j} (site {frozen_site})")),
                Some(Ok(n)) => Verdict::Ok(n, steps),
                Some(Err(e)) => Verdict::Violation(format!("with the writer suspended at step {j} (site {frozen_site}): {e}")),
                None => Verdict::Violation(format!("the iterating thread panicked with the writer suspended at step {j} (site {frozen_site})")),
            }
        }
        Err(_) => {
            let s1 = prober.gate.steps.load(Ordering::SeqCst);
            std::thread::sleep(std::time::Duration::from_secs(2));
            let s2 = prober.gate.steps.load(Ordering::SeqCst);
            let st = prober.thread_state();
            if frozen && (s2 > s1 + 100_000 || (s1 == s2 && st == 'S') || (s1 == s2 && st == 'R')) {
                Verdict::Violation(format!(
                    "iterators created before the table grew did not finish while the writer was suspended at step {j} (site {frozen_site}): thread state {st}, {} instrumented steps in 2 s (iteration must not wait for a writer)",
                    s2 - s1
                ))
            } else {
                Verdict::Inconclusive(format!("old iterators slow at step {j}: steps {s1} -> {s2}, state {st}"))
            }
        }
    };
    writer.gate.release();
    match &verdict {
        Verdict::Ok(..) => {
            let _ = prober.join();
            if writer.wait_done(20_000).is_err() {
                return Verdict::Inconclusive(format!("writer did not finish after being released at step {j}"));
            }
            let _ = writer.join();
        }
        _ => {
            prober.abandon();
            writer.abandon();
            std::mem::forget(map);
        }
    }
    verdict
}

/// A reader holds the tree read lock, a writer is parked waiting for it; other reads still run.
fn third_party(out: &mut Outcome, nkeys: u64) -> Result<(), String> {
    let m: Arc<UMap> = Arc::new(HashMap::with_capacity_and_hasher(64, HB::new(CONSTANT)));
    let mut pre = Model::new();
    {
        let g = m.guard();
        for k in 0..nkeys {
            m.insert(k, 1000 + k, &g);
            pre.insert(k, 1000 + k);
        }
    }
    let mut post = pre.clone();
    post.remove(&3);
    let m1 = m.clone();
    let r1 = Actor::spawn("reader-holding-read-lock", 1, |g| g.arm_site(fvf::WIN_TREE_READ_LOCKED, 1), move || {
        let g = m1.guard();
        let _ = m1.get(&5, &g);
    });
    if !r1.wait_frozen_or_done(10_000).map_err(|e| format!("INCONCLUSIVE {e}"))? {
        return Err("INCONCLUSIVE reader did not take the tree read lock".into());
    }
    let m2 = m.clone();
    let w = Actor::spawn("writer", 2, |_| {}, move || {
        let g = m2.guard();
        m2.remove(&3, &g);
    });
    // wait until the writer is parked (or done, if the removal needed no root lock)
    let t0 = std::time::Instant::now();
    let mut parked = false;
    while t0.elapsed().as_millis() < 3000 && !w.is_done() {
        if w.gate.lock_sites.load(std::sync::atomic::Ordering::SeqCst) > 0 && w.thread_state() == 'S' {
            parked = true;
            break;
        }
        std::thread::yield_now();
    }
    out.add("third_party_writer_parked_behind_reader", parked as u64);
    let other: UMap = HashMap::with_hasher(HB::new(CONSTANT));
    let result: Arc<std::sync::Mutex<Option<(u64, Option<String>)>>> = Arc::new(std::sync::Mutex::new(None));
    let (m3, r2, pre2, post2) = (m.clone(), result.clone(), pre.clone(), post.clone());
    let prober = Actor::spawn("second-reader", 3, |_| {}, move || {
        let r = battery(&m3, &other, &pre2, &post2, &[99]);
        *r2.lock().unwrap() = Some(r);
    });
    let res = prober.wait_done(30_000);
    let locks = prober.gate.lock_sites.load(std::sync::atomic::Ordering::SeqCst);
    r1.gate.release();
    if res.is_err() {
        let st = prober.thread_state();
        prober.abandon();
        return Err(format!("reads did not return while a reader held the tree read lock and a writer was parked (reader state {st})"));
    }
    let _ = prober.join();
    r1.wait_done(10_000).map_err(|e| format!("INCONCLUSIVE {e}"))?;
    w.wait_done(10_000).map_err(|e| format!("the parked writer was not woken after the reader left: {e}"))?;
    let _ = r1.join();
    let _ = w.join();
    if locks > 0 {
        return Err(format!("reads reached {locks} lock/park sites"));
    }
    if let Some((_, Some(e))) = result.lock().unwrap().take() {
        return Err(e);
    }
    Ok(())
}

pub fn run(ctx: &Ctx) -> Outcome {
    let mut out = Outcome::new(
        "for each writer scenario (insert: CAS / append / replace / resize / treeify / tree rotation; remove: list head, middle, tail / tree rebalancing / untreeify; compute replace and remove; clear; reserve over list and tree bins; retain; retain_force) \
         the writer is suspended at its j-th instrumented step for EVERY j of a dry run, and get / get_key_value / contains_key of every key, full iter / keys / values, len, is_empty and == in both directions run alone on another thread: \
         they must return (else confirmed blocked: thread state S and no step in 2 s), reach no lock or park site, and agree with the state before or after the operation (exactly, for untouched keys); \
         plus: a reader suspended while holding a tree read lock with a writer parked behind it; distinct = distinct (scenario, step)",
    );
    hook::install();
    install_panic_capture();
    hook::set_delay_level(0);
    let scs = scenarios();
    let mut exhaustive = true;
    let only = ctx.args.kv.get("scenario").and_then(|s| s.parse::<usize>().ok());
    for (si, s) in scs.iter().enumerate() {
        if only.map_or(false, |o| o != si) {
            continue;
        }
        // dry run: number of steps and the state afterwards
        let (map, _pre) = build(s);
        let m = map.clone();
        let op = s.op;
        let dry = Actor::spawn("dry", 1, |_| {}, move || op(&m));
        if dry.wait_done(20_000).is_err() {
            out.inconclusive.push(format!("dry run of '{}' did not finish", s.name));
            continue;
        }
        let steps = dry.gate.steps.load(std::sync::atomic::Ordering::SeqCst);
        let _ = dry.join();
        let post = contents(&map);
        drop(map);
        out.add("scenarios", if ctx.shard == 0 { 1 } else { 0 });
        out.list("scenario_steps", format!("{}: {} steps", s.name, steps));
        let first = ctx.args.u64("step", 1);
        let last = if ctx.args.has("step") { first } else { steps };
        for j in first..=last {
            if (j + si as u64) % ctx.shards != ctx.shard && !ctx.args.has("step") {
                continue;
            }
            if !ctx.time_left() {
                exhaustive = false;
                out.inconclusive.push(format!("time budget ended in scenario '{}' at step {j} of {steps}", s.name));
                break;
            }
            out.evaluations += 1;
            out.add("suspension_points", 1);
            out.distinct.insert(fnv(fnv(FNV_OFFSET ^ 12, si as u64), j));
            let mut v = experiment(s, j, &post);
            // scenarios on tree bins: also iterators that are older than the table
            if matches!(v, Verdict::Ok(..)) && s.name.contains("tree") && !s.name.contains("reserve") {
                out.add("old_iterator_experiments", 1);
                if let Verdict::Ok(n, _) = &v {
                    out.add("probes", *n);
                }
                v = old_iterators(s, j, &post);
            }
            match v {
                Verdict::Ok(n, rsteps) => {
                    out.add("probes", n);
                    out.max("max_own_steps_of_a_read_battery", rsteps as f64);
                }
                Verdict::Inconclusive(e) => {
                    exhaustive = false;
                    out.inconclusive.push(format!("'{}': {e}", s.name));
                }
                Verdict::Violation(e) => {
                    out.violate(
                        format!("c12/suspend/{si}"),
                        format!("scenario '{}': {e}", s.name),
                        Json::obj().with("check", Json::s("c12")).with("scenario", Json::u(si)).with("scenario_name", Json::s(s.name)).with("step", Json::u(j)),
                    );
                    out.exhaustive = Some(false);
                    return out;
                }
            }
        }
    }
    if ctx.shard == 0 && only.is_none() {
        // (a tree bin of 14 keys, and one much longer than any bound a fallback scan might have)
        for nkeys in [14u64, 100, 300] {
            out.evaluations += 1;
            out.add("third_party_runs", 1);
            match third_party(&mut out, nkeys) {
                Ok(()) => {}
                Err(e) if e.starts_with("INCONCLUSIVE") => out.inconclusive.push(e),
                Err(e) => {
                    out.violate("c12/third-party", format!("{e} [tree bin of {nkeys} keys]"), Json::obj().with("check", Json::s("c12")).with("part", Json::s("third-party")));
                    break;
                }
            }
        }
    }
    out.sample(Json::s("scenario 'remove from a tree bin with rebalancing': writer suspended at step 57 (inside the root write lock), 14 keys x {get, get_key_value, contains_key} + iter + keys + values + len + == on another thread"));
    out.exhaustive = Some(exhaustive);
    out
}
