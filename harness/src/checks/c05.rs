//! C05 — at quiescence lookups, iteration and len() agree and the table is well formed.
use super::Ctx;
use crate::freerun::*;
use crate::hook;
use crate::outcome::Outcome;
use crate::util::*;
use flurry::verif as fvf;

pub fn run(ctx: &Ctx) -> Outcome {
    let mut out = Outcome::new(
        "free-run rounds of the C01 generator (per-key calls, retain/retain_force/clear/reserve, HashSet facade, 2-12 threads, 7 hashers, growth through several generations, tree conversions); \
         after every join the inspector walks the table (power-of-two length, no forwarding marker, idle control words, every node in the bin of its hash, no key twice, locks free, counter = nodes) \
         and iter = keys = values = successful gets = len()/is_empty() is checked through the public API; \
         distinct = distinct (table length, list bins, tree bins, entries, interleaving signature) states audited after a round with at least one resize, tree conversion or clear",
    );
    hook::install();
    install_panic_capture();
    let target = ctx.args.u64("rounds", ctx.q(250, 6000));
    let mut round = ctx.args.u64("first-round", 0);
    let target = target + round;
    while round < target && ctx.time_left() {
        let rs = splitmix(ctx.seed ^ splitmix(ctx.shard.wrapping_mul(0xC05) ^ round) ^ 0x55);
        let mut rng = Rng::new(rs);
        let mut cfg = super::c01::draw(&mut rng, ctx.thorough);
        // quiescent audits are the point here: more structure-changing background operations
        if !cfg.set_facade && rng.chance(1, 2) {
            cfg.mix.retain = 1;
            cfg.mix.retain_force = 1;
            cfg.mix.clear = 1;
            cfg.mix.reserve = 3;
        }
        let r = run_round(&cfg, rs);
        round += 1;
        out.evaluations += 1;
        out.add("quiescent_points_audited", 1);
        let resizes = r.events.iter().filter(|e| e.site == fvf::EV_TABLE_PUBLISHED).count() as u64;
        let helpers = r.events.iter().filter(|e| e.site == fvf::EV_HELPER_JOINED).count() as u64;
        let conv = r.events.iter().filter(|e| matches!(e.site, fvf::EV_TREEIFIED | fvf::EV_UNTREEIFIED | fvf::EV_TREE_SPLIT)).count() as u64;
        out.add("resizes_before_audit", resizes);
        if helpers > 0 {
            out.add("points_after_multi_thread_resize", 1);
        }
        if resizes >= 2 {
            out.add("points_after_nested_resizes", 1);
        }
        if cfg.mix.clear > 0 {
            out.add("points_after_rounds_with_clear", 1);
        }
        out.add("tree_conversions_before_audit", conv);
        out.add("tree_bins_audited", r.audit.tree_bins as u64);
        out.add("list_bins_audited", r.audit.list_bins as u64);
        out.add("entries_audited", r.audit.nodes as u64);
        out.max("max_table_len", r.audit.len as f64);
        out.max("max_list_bin", r.audit.max_list as f64);
        if cfg.set_facade {
            out.add("points_set_facade", 1);
        }
        if resizes + conv > 0 || cfg.mix.clear > 0 {
            out.distinct.insert(fnv(fnv(fnv(fnv(r.signature, r.audit.len as u64), r.audit.list_bins as u64), r.audit.tree_bins as u64), r.audit.nodes as u64));
        }
        if out.samples.is_empty() && r.audit.tree_bins > 0 && resizes > 0 {
            out.sample(
                Json::obj()
                    .with("config", cfg.to_json())
                    .with("table_len", Json::u(r.audit.len))
                    .with("list_bins", Json::u(r.audit.list_bins))
                    .with("tree_bins", Json::u(r.audit.tree_bins))
                    .with("entries", Json::u(r.audit.nodes))
                    .with("resizes_in_round", Json::u(resizes)),
            );
        }
        let mut problem = None;
        if !r.panics.is_empty() {
            problem = Some(("panic", format!("{}; audit: {:?}", r.panics.join("; "), r.audit_failures)));
        } else if !r.audit_failures.is_empty() {
            problem = Some(("structure", r.audit_failures.join("; ")));
        } else if !r.agreement_failures.is_empty() {
            problem = Some(("agreement", r.agreement_failures.join("; ")));
        }
        if let Some((kind, p)) = problem {
            out.violate(
                format!("c05/freerun/{kind}"),
                format!("after all threads joined: {p} [round {} of shard {} {}]", round - 1, ctx.shard, cfg.to_json()),
                Json::obj().with("check", Json::s("c05")).with("engine", Json::s("freerun")).with("seed", Json::u(ctx.seed)).with("shard", Json::u(ctx.shard)).with("round", Json::u(round - 1)).with("config", cfg.to_json()),
            );
            break;
        }
    }
    out
}
