//! C10 — cooperative resizing: no overlap, single publication, full completion.
use super::Ctx;
use crate::freerun::*;
use crate::hashers::*;
use crate::hook;
use crate::orch::Actor;
use crate::outcome::Outcome;
use crate::util::*;
use flurry::verif as fvf;
use flurry::HashMap;
use std::sync::Arc;

type UMap = HashMap<u64, u64, HB>;

/// Stamp arithmetic for all 31 legal table lengths.
fn stamps(out: &mut Outcome) -> Result<(), String> {
    let c = fvf::constants();
    let mut seen = std::collections::BTreeMap::new();
    for k in 0..=30u32 {
        let n = 1usize << k;
        let s = fvf::resize_stamp(n);
        out.evaluations += 1;
        out.add("stamp_lengths", 1);
        out.distinct.insert(fnv(FNV_OFFSET ^ 0x57, n as u64));
        let rs = s << c.resize_stamp_shift;
        if rs >= 0 {
            return Err(format!("resize_stamp({n}) << {} = {rs} is not negative: size_ctl would not read as 'resizing'", c.resize_stamp_shift));
        }
        if let Some(prev) = seen.insert(s, n) {
            return Err(format!("tables of {prev} and {n} bins share the resize stamp {s:#x}"));
        }
        // the helper count rs+2 ..= rs+MAX_RESIZERS must stay inside the stamp: no carry into
        // the stamp bits and the value stays negative
        let hi = rs.checked_add(c.max_resizers).ok_or("stamp + MAX_RESIZERS overflows")?;
        if hi >= 0 || (hi >> c.resize_stamp_shift) != (rs >> c.resize_stamp_shift) {
            return Err(format!("helper count can carry into the stamp for n = {n}: rs = {rs:#x}, rs + MAX_RESIZERS = {hi:#x}"));
        }
        if (rs + 2) >> c.resize_stamp_shift != rs >> c.resize_stamp_shift {
            return Err(format!("(rs + 2) >> shift != rs >> shift for n = {n}"));
        }
    }
    // ranges [rs+1, rs+MAX] of different lengths are disjoint
    let v: Vec<(isize, usize)> = seen.iter().map(|(s, n)| (*s << c.resize_stamp_shift, *n)).collect();
    for (i, a) in v.iter().enumerate() {
        for b in v.iter().skip(i + 1) {
            let (lo_a, hi_a) = (a.0 + 1, a.0 + c.max_resizers);
            let (lo_b, hi_b) = (b.0 + 1, b.0 + c.max_resizers);
            if lo_a <= hi_b && lo_b <= hi_a {
                return Err(format!("control-word ranges of the {}-bin and {}-bin tables overlap", a.1, b.1));
            }
        }
    }
    if c.max_resizers < 1 || c.min_transfer_stride < 1 {
        return Err("degenerate constants".into());
    }
    Ok(())
}

fn quiescent_check(map: &UMap, events: &[hook::EventRec], what: &str) -> Result<ResizeStats, String> {
    let g = map.guard();
    let d = map.verif_dump(&g);
    let (a, _) = crate::inspect::audit(&d, None, map.len(), map.is_empty());
    if !a.ok() {
        return Err(format!("{what}: at quiescence: {}", a.failures.join("; ")));
    }
    resize_monitor(events, d.len).map_err(|e| format!("{what}: {e}"))
}

/// After quiescence: the next growth still works (fill to the threshold, table doubles once),
/// the threshold is 3/4 of the length, and dropping the map does not panic.
fn follow_up(map: UMap, what: &str) -> Result<(), String> {
    {
        let g = map.guard();
        let len = map.verif_table_len(&g);
        if len > 0 && len <= 4096 {
            let thr = len - len / 4;
            let mut k = 1u64 << 40;
            while map.len() < thr {
                map.insert(k, k, &g);
                k += 1;
                if map.verif_table_len(&g) != len && map.len() < thr {
                    return Err(format!("{what}: follow-up: table of {len} bins grew at {} entries, below its threshold {thr}", map.len()));
                }
            }
            let l2 = map.verif_table_len(&g);
            if l2 != 2 * len {
                return Err(format!("{what}: follow-up: after reaching {thr} entries the {len}-bin table has {l2} bins (later growth does not work)"));
            }
            let (sc, _, _) = map.verif_control();
            if sc != (l2 - l2 / 4) as isize {
                return Err(format!("{what}: follow-up: next threshold is {sc}, expected 3/4 of {l2}"));
            }
        }
    }
    guarded(move || drop(map)).map_err(|p| format!("{what}: dropping the map panicked: {p}"))
}

fn fill(map: &UMap, keys: impl Iterator<Item = u64>) {
    let g = map.guard();
    for k in keys {
        map.insert(k, k, &g);
    }
}

/// O1: the initiator is stopped right after initiating; k writers then join through `add_count`
/// and are stopped as they enter `transfer`; then everybody is released in a chosen order.
fn orch_multi_helper(mode: u8, cap: usize, helpers: usize, release_order: u8, out: &mut Outcome) -> Result<(), String> {
    let what = format!("multi-helper orchestration (hasher {}, capacity {cap}, {helpers} helpers, release order {release_order})", mode_name(mode));
    let map: Arc<UMap> = Arc::new(HashMap::with_capacity_and_hasher(cap, HB::new(mode)));
    // fill to one below the threshold
    let len = {
        let g = map.guard();
        map.insert(0, 0, &g);
        map.verif_table_len(&g)
    };
    let thr = (len - len / 4) as u64;
    fill(&map, 1..thr - 1);
    hook::events_enable(true);
    let _ = hook::events_take();
    let m = map.clone();
    let ini = Actor::spawn("initiator", 1, |g| g.arm_site(fvf::EV_RESIZE_INITIATED, 1), move || {
        let g = m.guard();
        m.insert(1_000_000, 1, &g);
    });
    if !ini.wait_frozen_or_done(30_000)? {
        return Err(format!("{what}: the insert that reaches the threshold did not initiate a resize"));
    }
    let mut hs = Vec::new();
    for h in 0..helpers {
        let m = map.clone();
        let a = Actor::spawn(&format!("helper{h}"), 2 + h as u16, |g| g.arm_site(fvf::EV_HELPER_JOINED, 1), move || {
            let g = m.guard();
            m.insert(2_000_000 + h as u64, 1, &g);
        });
        if !a.wait_frozen_or_done(30_000)? {
            // did not join (legal: e.g. MAX_RESIZERS reached) — but then coverage is missing
            out.add("orch_helpers_that_did_not_join", 1);
        }
        hs.push(a);
    }
    // release
    match release_order {
        0 => {
            ini.gate.release();
            ini.wait_done(30_000)?;
            for a in &hs {
                a.gate.release();
            }
        }
        1 => {
            for a in &hs {
                a.gate.release();
            }
            for a in &hs {
                a.wait_done(30_000)?;
            }
            ini.gate.release();
        }
        _ => {
            // one helper first, then the initiator, then the rest
            if let Some(a) = hs.first() {
                a.gate.release();
                a.wait_done(30_000)?;
            }
            ini.gate.release();
            for a in hs.iter().skip(1) {
                a.gate.release();
            }
        }
    }
    ini.wait_done(30_000)?;
    ini.join()?;
    for a in hs {
        a.wait_done(30_000)?;
        a.join()?;
    }
    hook::events_enable(false);
    let ev = hook::events_take();
    let st = quiescent_check(&map, &ev, &what)?;
    out.add("orch_generations", st.generations);
    out.add("orch_generations_multi_helper", st.multi_helper_generations);
    out.max("orch_max_helpers_in_one_generation", st.max_helpers as f64);
    for (k, v) in &st.helper_hist {
        out.add(&format!("orch_generations_with_{k}_threads"), *v);
    }
    let g = map.guard();
    for k in (0..thr - 1).chain([1_000_000]).chain((0..helpers as u64).map(|h| 2_000_000 + h)) {
        if map.get(&k, &g).is_none() {
            return Err(format!("{what}: key {k} is missing after the resize"));
        }
    }
    drop(g);
    let map = Arc::try_unwrap(map).map_err(|_| "map still shared".to_string())?;
    follow_up(map, &what)
}

/// O3: helpers that join through `help_transfer` (a writer meets a forwarding marker while the
/// resize is kept open by a frozen helper), then everybody is released.
fn orch_help_transfer(mode: u8, late_writers: usize, out: &mut Outcome) -> Result<(), String> {
    let what = format!("help_transfer orchestration (hasher {}, {late_writers} late writers)", mode_name(mode));
    let map: Arc<UMap> = Arc::new(HashMap::with_capacity_and_hasher(170, HB::new(mode))); // 256 bins, threshold 192
    fill(&map, 0..191);
    hook::events_enable(true);
    let _ = hook::events_take();
    // the initiator stops right after initiating ...
    let m = map.clone();
    let ini = Actor::spawn("initiator", 1, |g| g.arm_site(fvf::EV_RESIZE_INITIATED, 1), move || {
        let g = m.guard();
        m.insert(1_000_000, 1, &g);
    });
    if !ini.wait_frozen_or_done(30_000)? {
        return Err(format!("{what}: no resize initiated"));
    }
    // ... a helper joins through add_count. Its first claim yields i == n, which `transfer`
    // treats as "nothing left", so it leaves and re-joins from add_count's loop; on that second
    // visit it forwards bins and is stopped after the fifth: the resize is now open, the
    // initiator has not even made its first claim
    let m = map.clone();
    let h1 = Actor::spawn("helper-add-count", 2, |g| g.arm_site(fvf::EV_BIN_FORWARDED, 5), move || {
        let g = m.guard();
        m.insert(2_000_000, 1, &g);
    });
    if !h1.wait_frozen_or_done(30_000)? {
        return Err(format!("INCONCLUSIVE {what}: the helper finished without forwarding five bins"));
    }
    out.add("help_transfer_first_helper_joined_via_add_count", 1);
    // which bins are forwarded now? late writers insert keys that land in forwarded bins
    let forwarded: Vec<usize> = {
        let g = map.guard();
        let d = map.verif_dump(&g);
        d.bins.iter().enumerate().filter(|(_, b)| matches!(b, fvf::BinDump::Moved)).map(|(i, _)| i).collect()
    };
    out.add("help_transfer_bins_forwarded_when_late_writers_arrive", forwarded.len() as u64);
    let mut late = Vec::new();
    for w in 0..late_writers {
        let target_bin = forwarded.get(w % forwarded.len().max(1)).copied().unwrap_or(255);
        // a key that hashes into that bin of the 256-bin table
        let key = (0..u64::MAX).map(|x| 3_000_000 + x).find(|k| (hash_of(mode, *k) & 255) as usize == target_bin).unwrap();
        let m = map.clone();
        let a = Actor::spawn(&format!("late{w}"), 3 + w as u16, |g| g.arm_site(fvf::EV_HELPER_JOINED, 1), move || {
            let g = m.guard();
            m.insert(key, 1, &g);
        });
        if a.wait_frozen_or_done(30_000)? {
            out.add("help_transfer_joins_orchestrated", 1);
        }
        late.push((a, key));
    }
    let order = late_writers % 2;
    if order == 0 {
        ini.gate.release();
        h1.gate.release();
    } else {
        h1.gate.release();
    }
    for (a, _) in &late {
        a.gate.release();
    }
    if order == 1 {
        ini.gate.release();
    }
    ini.wait_done(30_000)?;
    ini.join()?;
    h1.wait_done(30_000)?;
    h1.join()?;
    let mut keys = Vec::new();
    for (a, k) in late {
        a.wait_done(30_000)?;
        a.join()?;
        keys.push(k);
    }
    hook::events_enable(false);
    let ev = hook::events_take();
    let st = quiescent_check(&map, &ev, &what)?;
    out.add("orch_generations", st.generations);
    out.add("orch_generations_multi_helper", st.multi_helper_generations);
    out.max("orch_max_helpers_in_one_generation", st.max_helpers as f64);
    let g = map.guard();
    for k in (0..191).chain([1_000_000, 2_000_000]).chain(keys) {
        if map.get(&k, &g).is_none() {
            return Err(format!("{what}: key {k} is missing after the resize"));
        }
    }
    drop(g);
    let map = Arc::try_unwrap(map).map_err(|_| "map still shared".to_string())?;
    follow_up(map, &what)
}

/// O2: a helper that validated an old table is delayed until the *next* generation's resize has
/// been initiated, joins that one, and leaves; the initiator has left meanwhile.
fn orch_stale_helper(out: &mut Outcome) -> Result<(), String> {
    let what = "stale-helper orchestration";
    let map: Arc<UMap> = Arc::new(HashMap::with_hasher(HB::new(IDENTITY)));
    fill(&map, 0..11); // 16 bins, threshold 12
    hook::events_enable(true);
    let _ = hook::events_take();
    // A initiates 16 -> 32 and stops after forwarding its first bin (bin 15, empty)
    let m = map.clone();
    let a = Actor::spawn("A", 1, |g| g.arm_site(fvf::EV_BIN_FORWARDED, 1), move || {
        let g = m.guard();
        m.insert(11, 11, &g);
    });
    if !a.wait_frozen_or_done(30_000)? {
        return Err(format!("{what}: no resize was initiated at the threshold"));
    }
    // B inserts into the forwarded bin 15: help_transfer validates table/next_table, then stops
    // right before it reads size_ctl
    let m = map.clone();
    let b = Actor::spawn("B", 2, |g| g.arm_site(fvf::RAW_ATOMIC, 1), move || {
        let g = m.guard();
        m.insert(15, 15, &g);
    });
    let b_frozen = b.wait_frozen_or_done(30_000)?;
    out.add("stale_helper_delayed_before_reading_control_word", b_frozen as u64);
    // A completes generation 16
    a.gate.release();
    a.wait_done(30_000)?;
    a.join()?;
    // fill up to one below the next threshold (24) and let C initiate 32 -> 64, stopped at once
    {
        let g = map.guard();
        let mut k = 100;
        while map.len() < 23 {
            map.insert(k, k, &g);
            k += 1;
        }
        if map.verif_table_len(&g) != 32 {
            return Err(format!("{what}: expected a 32-bin table, found {}", map.verif_table_len(&g)));
        }
    }
    let m = map.clone();
    let c = Actor::spawn("C", 3, |g| g.arm_site(fvf::EV_RESIZE_INITIATED, 1), move || {
        let g = m.guard();
        m.insert(5000, 1, &g);
    });
    if !c.wait_frozen_or_done(30_000)? {
        return Err(format!("{what}: second resize was not initiated"));
    }
    // B continues: it may (wrongly) join generation 32 with its 16-bin table
    if b_frozen {
        b.gate.arm_site(fvf::EV_HELPER_JOINED, 1);
        b.gate.release();
    }
    let b_joined = b.wait_frozen_or_done(30_000)?;
    out.add("second_writer_joined_a_generation_after_the_delay", b_joined as u64);
    // C leaves (if B joined, C is not the last one and simply returns)
    c.gate.release();
    c.wait_done(30_000)?;
    c.join()?;
    if b_joined {
        b.gate.release();
    }
    b.wait_done(30_000)?;
    b.join()?;
    hook::events_enable(false);
    let ev = hook::events_take();
    let g = map.guard();
    let d = map.verif_dump(&g);
    let (au, _) = crate::inspect::audit(&d, None, map.len(), map.is_empty());
    let final_len = d.len;
    drop(d);
    if !au.ok() {
        drop(g);
        // the map cannot be dropped in this state (its destructor asserts)
        std::mem::forget(map);
        let trace: Vec<String> = ev.iter().filter(|e| e.site != fvf::EV_BIN_FORWARDED && e.site != fvf::EV_LIST_SPLIT).map(|e| format!("t{}:{}({:#x},{})", e.thread, e.site, e.a & 0xffff, e.b)).collect();
        return Err(format!(
            "{what}: every participant has returned but the map is not back in its idle state: {} (a helper that validated the 16-bin table joined the resize of the 32-bin table); events {:?}",
            au.failures.join("; "), trace
        ));
    }
    drop(g);
    let _ = resize_monitor(&ev, final_len).map_err(|e| format!("{what}: {e}"))?;
    let map = Arc::try_unwrap(map).map_err(|_| "map still shared".to_string())?;
    follow_up(map, what)
}

/// Growth ladder: one key at a time from the smallest tables upwards; after every insert the
/// table is unchanged or exactly doubled, the control words are idle and the next threshold is
/// three quarters of the (new) length.
fn ladder(start: u8, mode: u8, max_len: usize, out: &mut Outcome) -> Result<(), String> {
    let map: UMap = match start {
        0 => {
            // reserve(0) on a never-used map creates a 1-bin table
            let m: UMap = HashMap::with_hasher(HB::new(mode));
            let g = m.guard();
            m.reserve(0, &g);
            drop(g);
            m
        }
        1 => HashMap::with_capacity_and_hasher(1, HB::new(mode)),
        _ => HashMap::with_hasher(HB::new(mode)),
    };
    hook::events_enable(true);
    let _ = hook::events_take();
    let g = map.guard();
    let mut len = map.verif_table_len(&g);
    let mut k = 0u64;
    let what = format!("growth ladder (start {}, hasher {})", ["1 bin", "2 bins", "lazy 16 bins"][start as usize], mode_name(mode));
    loop {
        map.insert(k, k, &g);
        k += 1;
        let l = map.verif_table_len(&g);
        let (sc, _, cnt) = map.verif_control();
        if len != 0 && l != len {
            if l != 2 * len && !(len < 64 && l > len && l.is_power_of_two() && mode != IDENTITY) {
                hook::events_enable(false);
                return Err(format!("{what}: the {len}-bin table was replaced by one of {l} bins at {cnt} entries"));
            }
            out.add("ladder_growths", 1);
        }
        if l > 0 && sc != (l - l / 4) as isize {
            hook::events_enable(false);
            return Err(format!("{what}: with {cnt} entries in a {l}-bin table (grown from {len}) the next growth threshold is {sc}, expected three quarters of the length = {}", l - l / 4));
        }
        if l > 0 && mode == IDENTITY && len == l && cnt as usize >= l - l / 4 {
            hook::events_enable(false);
            return Err(format!("{what}: {cnt} entries in a {l}-bin table and no growth (threshold {})", l - l / 4));
        }
        len = l;
        if len >= max_len {
            break;
        }
    }
    drop(g);
    hook::events_enable(false);
    let ev = hook::events_take();
    let st = quiescent_check(&map, &ev, &what)?;
    out.add("ladder_generations", st.generations);
    follow_up(map, &what)
}

pub fn draw(rng: &mut Rng) -> RoundCfg {
    let mut cfg = super::c01::draw(rng, true);
    cfg.set_facade = false;
    cfg.mode = *rng.pick(&[UNIFORM, IDENTITY, UNIFORM, SPLITTING, MIXED]);
    cfg.cap = *rng.pick(&[0usize, 1, 2, 8, 16, 40, 64]);
    cfg.nkeys = *rng.pick(&[64u64, 200, 400, 800]);
    cfg.threads = rng.range(2, 12) as usize;
    cfg.ops = rng.range(30, 90) as usize;
    cfg.mix = Mix::standard();
    cfg.mix.insert = 60;
    cfg.mix.try_insert = 15;
    cfg.mix.remove = 4;
    cfg.mix.reserve = 2;
    cfg.mix.retain = 0;
    cfg.mix.retain_force = 0;
    cfg.mix.clear = 0;
    cfg.disjoint = rng.chance(1, 2);
    cfg.delay_level = *rng.pick(&[1usize, 2, 2]);
    cfg.focus_site = *rng.pick(&[fvf::EV_RESIZE_INITIATED, fvf::EV_RESIZE_INITIATED, fvf::EV_HELPER_JOINED, fvf::WIN_TRANSFER_AFTER_FORWARD, fvf::WIN_TRANSFER_BEFORE_FORWARD, 0]);
    cfg.record_events = true;
    cfg.prefill = 0;
    if rng.chance(1, 8) {
        return threshold_race(rng, cfg);
    }
    if rng.chance(1, 6) {
        large_table(rng, &mut cfg);
    }
    cfg
}

/// threshold race: a table two entries short of its threshold, 3-4 threads insert one fresh
/// key each at the same moment; whoever brings the count to the threshold has to resize
pub fn threshold_race(rng: &mut Rng, mut cfg: RoundCfg) -> RoundCfg {
    {
        let (cap, threshold) = *rng.pick(&[(0usize, 12u64), (16, 24), (40, 48), (64, 96)]);
        cfg.mode = IDENTITY;
        cfg.cap = cap;
        cfg.prefill = threshold - 2;
        cfg.threads = rng.range(3, 4) as usize;
        cfg.nkeys = cfg.prefill + cfg.threads as u64;
        cfg.ops = 1;
        cfg.fresh_keys = true;
        cfg.mix = Mix::standard();
        cfg.mix.get = 0;
        cfg.mix.get_kv = 0;
        cfg.mix.contains = 0;
        cfg.mix.remove = 0;
        cfg.mix.remove_entry = 0;
        cfg.mix.compute_some = 0;
        cfg.mix.compute_none = 0;
        cfg.mix.compute_cond = 0;
        cfg.mix.try_insert = 0;
        cfg.mix.iterate = 0;
        cfg.mix.reserve = 0;
        cfg.mix.insert = 100;
        cfg.delay_level = 0;
        cfg.focus_site = 0;
        cfg.record_events = true;
        cfg
    }
}

fn large_table(rng: &mut Rng, cfg: &mut RoundCfg) {
    {
        // a large table filled to just under its threshold: the transfer has several strides
        // (stride = max(n / 8 / cpus, 16)), claimed by different threads
        let (cap, prefill, nkeys) = *rng.pick(&[(1400usize, 3060u64, 3600u64), (3000, 6130, 7000), (3000, 6140, 6600), (700, 1530, 1900)]);
        cfg.mode = *rng.pick(&[UNIFORM, IDENTITY]);
        cfg.cap = cap;
        cfg.prefill = prefill;
        cfg.nkeys = nkeys;
        cfg.threads = rng.range(4, 12) as usize;
        cfg.ops = rng.range(40, 80) as usize;
        cfg.mix.remove = 0;
        cfg.mix.reserve = 0;
        cfg.disjoint = false;
        cfg.focus_site = *rng.pick(&[fvf::EV_RESIZE_INITIATED, fvf::EV_HELPER_JOINED, 0]);
    }
}

pub fn run(ctx: &Ctx) -> Outcome {
    let mut out = Outcome::new(
        "stamps: all 31 table lengths 2^0..2^30 (negative when shifted, pairwise distinct, helper-count ranges disjoint and without carry); \
         orchestrations: initiator stopped right after initiating, 1-3 writers join through add_count and are stopped inside transfer, three release orders, list/tree/empty bins, tables of 16-256 bins; \
         stale helper delayed across a generation change; free-run: 2-12 threads inserting into maps that grow through several generations with delays at the resize sites; \
         every run ends with the resize event monitor (each bin forwarded exactly once, one publication, generations ordered and disjoint, lengths doubling), the inspector, a follow-up growth and drop; \
         distinct = distinct interleaving signatures of free-run rounds with at least one resize + distinct orchestration cases",
    );
    hook::install();
    install_panic_capture();
    if ctx.shard == 0 {
        if let Err(e) = stamps(&mut out) {
            out.violate("c10/stamps", e, Json::obj().with("check", Json::s("c10")).with("part", Json::s("stamps")));
            return out;
        }
        out.add("orch_stale_helper_runs", 1);
        out.evaluations += 1;
        if let Err(e) = orch_stale_helper(&mut out) {
            out.violate("c10/orch/stale-helper", e, Json::obj().with("check", Json::s("c10")).with("part", Json::s("stale-helper")));
            return out;
        }
    }
    if ctx.shard == 2 % ctx.shards {
        for mode in [IDENTITY, UNIFORM] {
            for late in 1..=3usize {
                out.evaluations += 1;
                out.add("orch_help_transfer_runs", 1);
                out.distinct.insert(fnv(fnv(FNV_OFFSET ^ 0x4e1, mode as u64), late as u64));
                match guarded(|| orch_help_transfer(mode, late, &mut out)).unwrap_or_else(Err) {
                    Ok(()) => {}
                    Err(e) if e.contains("neither reached") || e.contains("did not finish within") || e.starts_with("INCONCLUSIVE") => out.inconclusive.push(e),
                    Err(e) => {
                        out.violate("c10/orch/help-transfer", e, Json::obj().with("check", Json::s("c10")).with("part", Json::s("help-transfer")).with("hasher", Json::s(mode_name(mode))).with("late_writers", Json::u(late)));
                        return out;
                    }
                }
            }
        }
    }
    // growth ladders from the smallest tables
    if ctx.shard == 1 % ctx.shards {
        for start in 0..3u8 {
            for mode in [IDENTITY, UNIFORM] {
                out.evaluations += 1;
                out.add("ladder_runs", 1);
                out.distinct.insert(fnv(fnv(FNV_OFFSET ^ 0x1adde5, start as u64), mode as u64));
                if let Err(e) = guarded(|| ladder(start, mode, ctx.q(4096, 1 << 17), &mut out)).unwrap_or_else(|p| Err(p)) {
                    out.violate("c10/ladder", e, Json::obj().with("check", Json::s("c10")).with("part", Json::s("ladder")).with("start", Json::u(start)).with("hasher", Json::s(mode_name(mode))));
                    return out;
                }
            }
        }
    }
    // orchestrated multi-helper resizes
    let mut idx = 0u64;
    for &(mode, cap) in &[(IDENTITY, 0usize), (UNIFORM, 40), (SPLITTING, 64), (UNIFORM, 150), (CONSTANT, 64), (IDENTITY, 20)] {
        for helpers in 1..=3usize {
            for order in 0..3u8 {
                idx += 1;
                if idx % ctx.shards != ctx.shard {
                    continue;
                }
                out.evaluations += 1;
                out.add("orch_multi_helper_runs", 1);
                out.distinct.insert(fnv(fnv(fnv(fnv(FNV_OFFSET ^ 0x0c, mode as u64), cap as u64), helpers as u64), order as u64));
                if let Err(e) = orch_multi_helper(mode, cap, helpers, order, &mut out) {
                    let inconclusive = e.contains("neither reached") || e.contains("did not finish within");
                    if inconclusive {
                        out.inconclusive.push(e);
                    } else {
                        out.violate(
                            "c10/orch/multi-helper",
                            e,
                            Json::obj().with("check", Json::s("c10")).with("part", Json::s("multi-helper")).with("hasher", Json::s(mode_name(mode))).with("cap", Json::u(cap)).with("helpers", Json::u(helpers)).with("order", Json::u(order)),
                        );
                    }
                    return out;
                }
            }
        }
    }
    // free-run
    let target = ctx.args.u64("rounds", ctx.q(150, 5000));
    let mut round = ctx.args.u64("first-round", 0);
    let target = if ctx.args.u64("rounds", 0) == 1 { target + round } else { 2 * target + round };
    while round < target && ctx.time_left() {
        let rs = splitmix(ctx.seed ^ splitmix(ctx.shard.wrapping_mul(0x10C0) ^ round) ^ 0xC10);
        let mut rng = Rng::new(rs);
        // every other round is a threshold race (short: 3-4 calls)
        let cfg = if round % 2 == 1 {
            out.add("threshold_race_rounds", 1);
            let base = draw(&mut rng);
            threshold_race(&mut rng, base)
        } else {
            draw(&mut rng)
        };
        let r = run_round(&cfg, rs);
        round += 1;
        out.evaluations += 1;
        out.add("freerun_rounds", 1);
        let mut problem: Option<String> = None;
        if !r.panics.is_empty() {
            problem = Some(format!("panic: {}; audit at quiescence: {:?}", r.panics.join("; "), r.audit_failures));
        } else if !r.audit_failures.is_empty() {
            problem = Some(format!("at quiescence: {}", r.audit_failures.join("; ")));
        } else {
            match resize_monitor(&r.events, r.final_len) {
                Err(e) => problem = Some(e),
                Ok(st) if st.generations == 0
                    && cfg.prefill > 0
                    && r.final_size_ctl > 0
                    && r.final_count >= r.final_size_ctl
                    && r.final_len < (1 << 30)
                    && !r.events.iter().any(|e| matches!(e.site, fvf::EV_RESIZE_INITIATED | fvf::EV_RESIZE_BEGIN | fvf::EV_HELPER_JOINED)) =>
                {
                    // sound only because no resize ever began in this round: with a resize in flight an
                    // insert may legitimately leave without re-checking the threshold
                    problem = Some(format!(
                        "the entry count reached {} in a {}-bin table whose resize threshold is {}, no resize was ever begun during the round, and all calls have returned: the insert that brought the count to the threshold did not replace the table",
                        r.final_count, r.final_len, r.final_size_ctl
                    ));
                }
                Ok(st) => {
                    if r.final_size_ctl > 0 && r.final_count < r.final_size_ctl {
                        out.add("freerun_rounds_ending_below_threshold", 1);
                    }
                    out.add("generations", st.generations);
                    out.add("bins_forwarded", st.bins_forwarded);
                    out.add("generations_multi_helper", st.multi_helper_generations);
                    out.max("max_threads_in_one_generation", st.max_helpers as f64);
                    out.max("max_table_len", r.final_len as f64);
                    for (k, v) in &st.helper_hist {
                        out.add(&format!("generations_with_{k}_threads"), *v);
                    }
                    if st.generations > 0 {
                        out.distinct.insert(r.signature);
                        if out.samples.is_empty() && st.multi_helper_generations > 0 {
                            out.sample(
                                Json::obj()
                                    .with("config", cfg.to_json())
                                    .with("generations", Json::u(st.generations))
                                    .with("table_lengths_resized", Json::Arr(st.lens.iter().map(|x| Json::u(*x)).collect()))
                                    .with("max_threads_in_one_generation", Json::u(st.max_helpers))
                                    .with("resize_events", Json::u(r.events.len())),
                            );
                        }
                    }
                }
            }
        }
        if let Some(p) = problem {
            out.violate(
                "c10/freerun",
                format!("{p} [round {} of shard {} {}]", round - 1, ctx.shard, cfg.to_json()),
                Json::obj().with("check", Json::s("c10")).with("engine", Json::s("freerun")).with("seed", Json::u(ctx.seed)).with("shard", Json::u(ctx.shard)).with("round", Json::u(round - 1)).with("config", cfg.to_json()),
            );
            break;
        }
    }
    out
}
