//! C08 — compute_if_present is an atomic read-modify-write.
use super::Ctx;
use crate::freerun::*;
use crate::hashers::*;
use crate::hook;
use crate::outcome::Outcome;
use crate::util::*;
use crate::wgl;
use flurry::HashMap;
use std::sync::atomic::{AtomicBool, AtomicU64, Ordering};
use std::sync::Arc;

type UMap = HashMap<u64, u64, HB>;

pub const COMPETITORS: [&str; 5] = ["insert", "remove", "compute_if_present", "try_insert", "remove_entry"];

/// (i) While the closure of a compute on `key` is running, a competitor call on the same key is
/// started on another thread: it must not take effect before the closure has returned.
fn closure_pause(mode: u8, n: u64, key: u64, competitor: u8, out: &mut Outcome) -> Result<(), String> {
    let map: Arc<UMap> = Arc::new(HashMap::with_capacity_and_hasher(64, HB::new(mode)));
    {
        let g = map.guard();
        for k in 0..n {
            map.insert(k, 100 + k, &g);
        }
    }
    let v0 = 100 + key;
    let inside = Arc::new(AtomicBool::new(false));
    let go = Arc::new(AtomicBool::new(false));
    let (m, i2, g2) = (map.clone(), inside.clone(), go.clone());
    let x = std::thread::spawn(move || {
        let g = m.guard();
        let mut saw = None;
        let t0 = std::time::Instant::now();
        let r = m
            .compute_if_present(
                &key,
                |_, v| {
                    saw = Some(*v);
                    i2.store(true, Ordering::SeqCst);
                    while !g2.load(Ordering::SeqCst) && t0.elapsed().as_secs() < 20 {
                        std::thread::yield_now();
                    }
                    Some(*v + 1)
                },
                &g,
            )
            .copied();
        (saw, r)
    });
    let t0 = std::time::Instant::now();
    while !inside.load(Ordering::SeqCst) {
        if t0.elapsed().as_secs() > 10 {
            go.store(true, Ordering::SeqCst);
            let _ = x.join();
            return Err("INCONCLUSIVE the closure was never entered".into());
        }
        std::thread::yield_now();
    }
    let started = Arc::new(AtomicBool::new(false));
    let done = Arc::new(AtomicBool::new(false));
    let y_closure_ran = Arc::new(AtomicBool::new(false));
    let (m, s2, d2, c2, i3) = (map.clone(), started.clone(), done.clone(), y_closure_ran.clone(), inside.clone());
    let closure_ran_while_inside = Arc::new(AtomicBool::new(false));
    let cw = closure_ran_while_inside.clone();
    let go_y = go.clone();
    let y = std::thread::spawn(move || {
        let g = m.guard();
        s2.store(true, Ordering::SeqCst);
        let r: (Option<u64>, bool) = match competitor {
            0 => (m.insert(key, 5000, &g).copied(), true),
            1 => (m.remove(&key, &g).copied(), true),
            2 => {
                let r = m
                    .compute_if_present(
                        &key,
                        |_, v| {
                            c2.store(true, Ordering::SeqCst);
                            if i3.load(Ordering::SeqCst) && !go_y.load(Ordering::SeqCst) {
                                cw.store(true, Ordering::SeqCst);
                            }
                            Some(*v + 1000)
                        },
                        &g,
                    )
                    .copied();
                (r, true)
            }
            3 => match m.try_insert(key, 6000, &g) {
                Ok(_) => (None, true),
                Err(e) => (Some(*e.current), false),
            },
            _ => (m.remove_entry(&key, &g).map(|x| *x.1), true),
        };
        d2.store(true, Ordering::SeqCst);
        r
    });
    // give the competitor time to run into the closure's critical section
    let t1 = std::time::Instant::now();
    while t1.elapsed().as_millis() < 12 && !done.load(Ordering::SeqCst) {
        std::thread::yield_now();
    }
    let done_during = done.load(Ordering::SeqCst);
    let started_during = started.load(Ordering::SeqCst);
    go.store(true, Ordering::SeqCst);
    let (x_saw, x_res) = x.join().map_err(|_| "compute thread panicked".to_string())?;
    let (y_res, y_effect) = y.join().map_err(|_| "competitor thread panicked".to_string())?;
    let cname = COMPETITORS[competitor as usize];
    if started_during && !done_during {
        out.add("probes_competitor_observed_blocked_until_closure_returned", 1);
    } else {
        out.add("probes_missed_competitor_not_started_or_read_only", 1);
    }
    if x_saw != Some(v0) || x_res != Some(v0 + 1) {
        return Err(format!("the paused compute saw {:?} and returned {:?}, expected {} / {}", x_saw, x_res, v0, v0 + 1));
    }
    if closure_ran_while_inside.load(Ordering::SeqCst) {
        return Err(format!("a second compute_if_present on key {key} ran its closure while the first one's closure was still running"));
    }
    // a competitor that completed *with an effect* while the closure was running broke atomicity
    if done_during && y_effect {
        let effect = match competitor {
            0 => true,
            1 | 4 => y_res.is_some(),
            2 => y_closure_ran.load(Ordering::SeqCst),
            _ => true,
        };
        if effect {
            return Err(format!("{cname} on key {key} took effect (returned {:?}) while the closure of compute_if_present on the same key was still running", y_res));
        }
    }
    // results must be explained by: compute (v0 -> v0+1), then the competitor
    let g = map.guard();
    let fin = map.get(&key, &g).copied();
    let ok = match competitor {
        0 => y_res == Some(v0 + 1) && fin == Some(5000),
        1 | 4 => y_res == Some(v0 + 1) && fin.is_none(),
        2 => y_res == Some(v0 + 1001) && fin == Some(v0 + 1001),
        _ => (y_res == Some(v0) || y_res == Some(v0 + 1)) && fin == Some(v0 + 1),
    };
    if !ok {
        return Err(format!("{cname} started during the closure returned {:?} and the key finally holds {:?}; the compute had replaced {v0} by {}", y_res, fin, v0 + 1));
    }
    Ok(())
}

/// (ii) conservation of increments.
fn conservation(mode: u8, cap: usize, counters: u64, threads: usize, per_thread: u64, seed: u64, out: &mut Outcome) -> Result<(), String> {
    let map: Arc<UMap> = Arc::new(HashMap::with_capacity_and_hasher(cap, HB::new(mode)));
    {
        let g = map.guard();
        for c in 0..counters {
            map.insert(c, 0, &g);
        }
    }
    let succeeded = Arc::new(AtomicU64::new(0));
    let mut hs = Vec::new();
    for t in 0..threads {
        let (m, s) = (map.clone(), succeeded.clone());
        hs.push(std::thread::spawn(move || {
            hook::set_role(hook::ROLE_DELAY, t as u16, seed ^ t as u64);
            let mut rng = Rng::new(seed ^ (t as u64) << 8);
            let mut per = vec![0u64; counters as usize];
            for i in 0..per_thread {
                let g = m.guard();
                let c = rng.below(counters);
                let mut calls = 0;
                if m.compute_if_present(&c, |_, v| { calls += 1; Some(*v + 1) }, &g).is_some() {
                    per[c as usize] += 1;
                    s.fetch_add(1, Ordering::Relaxed);
                }
                if calls != 1 {
                    per[c as usize] = u64::MAX / 4;
                }
                // neighbours in the same bins come and go, the table grows
                let nk = counters + rng.below(200);
                match i % 4 {
                    0 => {
                        m.insert(nk, 1, &g);
                    }
                    1 => {
                        m.remove(&nk, &g);
                    }
                    2 => {
                        m.compute_if_present(&nk, |_, _| None, &g);
                    }
                    _ => {}
                }
            }
            hook::set_role(hook::ROLE_NONE, 0, 0);
            per
        }));
    }
    let mut want = vec![0u64; counters as usize];
    for h in hs {
        let per = h.join().map_err(|_| "worker panicked".to_string())?;
        for (i, x) in per.iter().enumerate() {
            want[i] += x;
        }
    }
    let g = map.guard();
    for c in 0..counters {
        let got = map.get(&c, &g).copied();
        if got != Some(want[c as usize]) {
            return Err(format!("counter {c} holds {:?} after {} successful increments ({} threads, hasher {}): increments were lost or the closure did not run exactly once", got, want[c as usize], threads, mode_name(mode)));
        }
    }
    out.add("increments_conserved", want.iter().sum::<u64>());
    Ok(())
}

pub fn run(ctx: &Ctx) -> Outcome {
    let mut out = Outcome::new(
        "(i) closure-pause probes: a compute_if_present closure on key k is held open while insert/remove/compute/try_insert/remove_entry on k is started on another thread (list bins, tree bins, every key position): no effect before the closure returns, results explained by compute-then-competitor; \
         (ii) conservation: 2-12 threads incrementing 1-4 counters through compute while neighbours churn and the table grows; (iii) compute-heavy free-run rounds checked for linearizability with the value the closure saw; \
         distinct = distinct probe cases + interleaving signatures of rounds with contended compute calls",
    );
    hook::install();
    install_panic_capture();
    // ---- (i)
    let mut idx = 0u64;
    'probes: for &(mode, n) in &[(UNIFORM, 6u64), (CONSTANT, 5), (CONSTANT, 14), (SAMEBIN, 20), (MIXED, 12)] {
        for key in 0..n {
            for comp in 0..5u8 {
                idx += 1;
                if idx % ctx.shards != ctx.shard || (!ctx.thorough && key % 2 == 1 && n > 6) {
                    continue;
                }
                if !ctx.time_left() {
                    break 'probes;
                }
                out.evaluations += 1;
                out.add("closure_pause_probes", 1);
                out.distinct.insert(fnv(fnv(fnv(fnv(FNV_OFFSET ^ 8, mode as u64), n), key), comp as u64));
                match guarded(|| closure_pause(mode, n, key, comp, &mut out)) {
                    Ok(Ok(())) => {}
                    Ok(Err(e)) if e.starts_with("INCONCLUSIVE") => out.inconclusive.push(e),
                    Ok(Err(e)) | Err(e) => {
                        out.violate(
                            format!("c08/closure-pause/{}", COMPETITORS[comp as usize]),
                            format!("{e} [hasher {}, {n} keys in the bin, key {key}]", mode_name(mode)),
                            Json::obj().with("check", Json::s("c08")).with("part", Json::s("closure-pause")).with("hasher", Json::s(mode_name(mode))).with("n", Json::u(n)).with("key", Json::u(key)).with("competitor", Json::s(COMPETITORS[comp as usize])),
                        );
                        return out;
                    }
                }
            }
        }
    }
    out.sample(Json::s("constant hasher, 14 keys in one tree bin, compute on key 3 paused inside its closure, competitor remove(3): must block until the closure returns, then return the new value"));
    // ---- (ii)
    let runs = ctx.q(40u64, 2000);
    for i in 0..runs {
        // (at most 40 % of the budget: the free-run part below needs its share)
        if !ctx.time_left() || ctx.start.elapsed() > ctx.budget.mul_f64(0.4) {
            break;
        }
        let mut rng = Rng::derive(ctx.seed, 0xC08 + ctx.shard, i);
        let mode = *rng.pick(&[UNIFORM, IDENTITY, CONSTANT, SAMEBIN, SPLITTING, MODGROUPS, ALLHIGH]);
        let cap = *rng.pick(&[0usize, 1, 16, 64]);
        let counters = rng.range(1, 4);
        let threads = rng.range(2, 12) as usize;
        out.evaluations += 1;
        out.add("conservation_runs", 1);
        hook::set_delay_level(1);
        if let Err(e) = conservation(mode, cap, counters, threads, ctx.q(300, 1500), rng.next(), &mut out) {
            out.violate("c08/conservation", e, Json::obj().with("check", Json::s("c08")).with("part", Json::s("conservation")).with("seed", Json::u(ctx.seed)).with("shard", Json::u(ctx.shard)).with("run", Json::u(i)));
            return out;
        }
    }
    // ---- (iii)
    let target = ctx.args.u64("rounds", ctx.q(120, 4000));
    let mut round = ctx.args.u64("first-round", 0);
    let target = target + round;
    while round < target && ctx.time_left() {
        let rs = splitmix(ctx.seed ^ splitmix(ctx.shard.wrapping_mul(0xC08) ^ round) ^ 0x88);
        let mut rng = Rng::new(rs);
        let mut cfg = super::c01::draw(&mut rng, ctx.thorough);
        cfg.set_facade = false;
        cfg.mix = Mix { get: 8, get_kv: 2, contains: 2, insert: 14, try_insert: 6, remove: 10, remove_entry: 2, compute_some: 30, compute_none: 10, compute_cond: 14, retain: 0, retain_force: 0, clear: 0, reserve: 1, iterate: 0, panic_compute: 0, panic_retain: 0 };
        cfg.nkeys = cfg.nkeys.min(16);
        let r = run_round(&cfg, rs);
        round += 1;
        out.evaluations += 1;
        out.add("freerun_rounds", 1);
        if !r.panics.is_empty() {
            out.violate("c08/freerun/panic", format!("{} [{}]", r.panics.join("; "), cfg.to_json()), Json::obj().with("check", Json::s("c08")).with("seed", Json::u(ctx.seed)).with("shard", Json::u(ctx.shard)).with("round", Json::u(round - 1)));
            break;
        }
        let pre = r.prefill.clone();
        let init = move |k: u64| pre.get(&k).copied();
        let hr = wgl::check_history(&r.history, &init, 1 << 21);
        let rmw = r.history.iter().filter(|e| matches!(e.op, wgl::Op::Compute { .. })).count() as u64;
        let rmw_ran = r.history.iter().filter(|e| matches!(e.op, wgl::Op::Compute { saw: Some(_), .. })).count() as u64;
        out.add("rmw_calls_in_checked_histories", rmw);
        out.add("rmw_calls_whose_closure_ran", rmw_ran);
        out.add("key_histories_checked", hr.keys_checked);
        out.add("key_histories_unchecked_budget", hr.keys_inconclusive);
        if hr.contended_keys > 0 {
            out.distinct.insert(r.signature);
        }
        if let Some((k, h)) = hr.violation {
            super::c01::history_violation(&mut out, "c08", ctx, round - 1, &cfg, k, &h, init(k));
            break;
        }
    }
    out
}
