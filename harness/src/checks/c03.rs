//! C03 — references handed out under a guard never dangle; freed memory is never touched.
//! Part `bulk`: inputs to the bulk constructors (collect / FromIterator / extend), decided by
//! the sanitizer the worker is built with (ASan, Miri) plus integrity checks of everything read.
//! Part `held`: readers that keep references for the life of a guard while writers retire the
//! entries (see `freerun`).
use super::Ctx;
use crate::api::*;
use crate::hashers::*;
use crate::hook;
use crate::outcome::Outcome;
use crate::seq::{HintIter, Set};
use crate::types::*;
use crate::util::*;

fn bulk_case(mode: u8, n: u64, hint: u8, dup_every: u64, kind: u8) -> Result<(u64, u64), String> {
    set_default_mode(mode);
    // keys 0..n, every `dup_every`-th key repeated later with another value
    let mut items: Vec<(u64, u32, u64)> = (0..n).map(|k| (k, k as u32 + 1, 1000 + k)).collect();
    if dup_every > 0 {
        for k in (0..n).step_by(dup_every as usize) {
            items.push((k, 100_000 + k as u32, 5000 + k));
        }
    }
    let mut model: std::collections::BTreeMap<u64, (u32, u64)> = Default::default();
    for &(k, o, v) in &items {
        let oo = model.get(&k).map(|x| x.0).unwrap_or(o);
        model.insert(k, (oo, v));
    }
    let total = items.len();
    match kind {
        0 | 1 => {
            let base = items.into_iter().map(|(k, o, v)| (TKey::new(k, o), TVal::new(v)));
            let map: Map = if kind == 0 {
                match hint {
                    0 => base.collect(),
                    1 => base.filter(|_| true).collect(),
                    _ => HintIter { inner: base, lower: total / 4 }.collect(),
                }
            } else {
                // extend on a fresh (capacity 0) or small map
                let m = Map::with_hasher(HB::new(mode));
                let mut r = &m;
                match hint {
                    0 => r.extend(base),
                    1 => r.extend(base.filter(|_| true)),
                    _ => r.extend(HintIter { inner: base, lower: total / 4 }),
                }
                m
            };
            let g = map.guard();
            let api = Api { map: &map, facade: 0, guard: &g };
            let mut got = api.iter();
            got.sort_by_key(|e| e.k);
            let want: Vec<KV> = model.iter().map(|(k, x)| KV { k: *k, origin: x.0, v: x.1 }).collect();
            if got != want {
                return Err(format!("contents after bulk construction differ: got {} entries {:?}.., want {} entries", got.len(), got.iter().take(4).collect::<Vec<_>>(), want.len()));
            }
            for k in 0..n + 2 {
                if api.get(k) != model.get(&k).map(|x| x.1) {
                    return Err(format!("get({k}) after bulk construction = {:?}", api.get(k)));
                }
            }
            let d = map.verif_dump(&g);
            let hf = |k: &TKey| hash_of(mode, k.k);
            let (a, _) = crate::inspect::audit(&d, Some(&hf), map.len(), map.is_empty());
            if !a.ok() {
                return Err(a.failures.join("; "));
            }
            Ok((d.len as u64, a.tree_bins as u64))
        }
        4 => {
            // Clone builds a fresh map under a guard of its own, too
            let base = items.into_iter().map(|(k, o, v)| (TKey::new(k, o), TVal::new(v)));
            let src = Map::with_hasher(HB::new(mode));
            {
                let mut r = &src;
                r.extend(base);
            }
            let map = src.clone();
            if hint == 1 {
                drop(src);
            }
            let g = map.guard();
            let api = Api { map: &map, facade: 0, guard: &g };
            let mut got = api.iter();
            got.sort_by_key(|e| e.k);
            let want: Vec<KV> = model.iter().map(|(k, x)| KV { k: *k, origin: x.0, v: x.1 }).collect();
            if got != want {
                return Err(format!("contents of the clone differ: got {} entries, want {}", got.len(), want.len()));
            }
            let d = map.verif_dump(&g);
            let hf = |k: &TKey| hash_of(mode, k.k);
            let (a, _) = crate::inspect::audit(&d, Some(&hf), map.len(), map.is_empty());
            if !a.ok() {
                return Err(a.failures.join("; "));
            }
            Ok((d.len as u64, a.tree_bins as u64))
        }
        #[cfg(feature = "bulk")]
        3 => {
            // deserialisation is a bulk constructor too: a JSON object with the same keys (and
            // repeated keys), built into a fresh map by serde's visit_map
            let text = format!("{{{}}}", items.iter().map(|(k, _, v)| format!("\"{k}\":{v}")).collect::<Vec<_>>().join(","));
            let map: flurry::HashMap<u64, u64, HB> = serde_json::from_str(&text).map_err(|e| format!("from_str failed: {e}"))?;
            let g = map.guard();
            let mut got: Vec<(u64, u64)> = map.iter(&g).map(|(k, v)| (*k, *v)).collect();
            got.sort();
            let want: Vec<(u64, u64)> = model.iter().map(|(k, x)| (*k, x.1)).collect();
            if got != want {
                return Err(format!("contents after deserialisation differ: {} entries, want {}", got.len(), want.len()));
            }
            Ok((map.verif_table_len(&g) as u64, 0))
        }
        _ => {
            let base = items.into_iter().map(|(k, o, _)| TKey::new(k, o));
            let set: Set = match hint {
                0 => base.collect(),
                1 => base.filter(|_| true).collect(),
                _ => HintIter { inner: base, lower: total / 4 }.collect(),
            };
            let g = set.guard();
            let mut got: Vec<(u64, u32)> = set.iter(&g).map(|k| { k.verify(); (k.k, k.origin) }).collect();
            got.sort();
            let want: Vec<(u64, u32)> = model.iter().map(|(k, x)| (*k, x.0)).collect();
            if got != want {
                return Err(format!("set contents after from_iter differ: got {} entries, want {}", got.len(), want.len()));
            }
            Ok((set.verif_map().verif_table_len(&g) as u64, 0))
        }
    }
}

pub fn run_bulk(ctx: &Ctx, out: &mut Outcome) {
    let max_n: u64 = if cfg!(miri) { ctx.args.u64("max-n", 40) } else { ctx.args.u64("max-n", ctx.q(120, 200)) };
    let step = if cfg!(miri) { 3 } else { 1 };
    let modes = [UNIFORM, CONSTANT, SAMEBIN, MIXED, IDENTITY];
    let mut idx = 0u64;
    'outer: for &mode in &modes {
        for kind in 0..5u8 {
            if kind == 3 && !cfg!(feature = "bulk") {
                continue;
            }
            for hint in 0..3u8 {
                if (kind == 3 && hint > 0) || (kind == 4 && hint > 1) {
                    continue;
                }
                for dup in [0u64, 1, 3] {
                    let mut n = 0;
                    while n <= max_n {
                        idx += 1;
                        let mine = idx % ctx.shards == ctx.shard;
                        let nn = n;
                        n += if nn < 24 { 1 } else { step * (1 + nn / 24) };
                        if !mine {
                            continue;
                        }
                        if !ctx.time_left() {
                            out.inconclusive.push("bulk: time budget exhausted before the enumeration finished".into());
                            break 'outer;
                        }
                        ledger().reset();
                        let r = guarded(|| bulk_case(mode, nn, hint, dup, kind));
                        out.evaluations += 1;
                        out.add("bulk_cases", 1);
                        let kind_s = ["collect", "extend", "serde_from_str", "set_from_iter", "clone"][if kind == 3 { 2 } else if kind == 2 { 3 } else { kind as usize }];
                        let hint_s = ["exact", "zero", "low"][hint as usize];
                        let case = format!("{kind_s}/{}/hint={hint_s}/dup_every={dup}/n={nn}", mode_name(mode));
                        let fail = match r {
                            Ok(Ok((len, trees))) => {
                                // non-trivial: the construction had to resize or build a tree bin
                                out.max("max_table_len", len as f64);
                                if trees > 0 {
                                    out.add("bulk_cases_with_tree_bin", 1);
                                }
                                if nn >= 2 {
                                    out.distinct.insert(fnv_str(FNV_OFFSET, &case));
                                }
                                let c = corrupt_take();
                                let l = ledger().report();
                                if !c.is_empty() {
                                    Some(format!("corrupt data read through a reference: {}", c.join("; ")))
                                } else if !l.errors.is_empty() {
                                    Some(format!("drop ledger: {}", l.errors.join("; ")))
                                } else {
                                    None
                                }
                            }
                            Ok(Err(e)) => Some(e),
                            Err(p) => Some(format!("bulk constructor panicked: {p}")),
                        };
                        if out.samples.is_empty() && nn == 30 {
                            out.sample(Json::s(case.clone()));
                        }
                        if let Some(f) = fail {
                            out.violate(
                                format!("c03/bulk/{kind_s}"),
                                format!("{case}: {f}"),
                                Json::obj().with("check", Json::s("c03")).with("part", Json::s("bulk")).with("case", Json::s(case)),
                            );
                            break 'outer;
                        }
                    }
                }
            }
        }
    }
}

pub fn run(ctx: &Ctx) -> Outcome {
    let mut out = Outcome::new(
        "bulk: every (constructor in {collect, extend, HashSet::from_iter}, hasher in {uniform, constant, samebin, mixed, identity}, \
         size hint in {exact, zero, under-reported}, duplicates in {none, every key, every third}, n in 0..=max) — distinct = cases with n >= 2; \
         held: see counters",
    );
    hook::install();
    let part = ctx.args.str("part", "bulk");
    if part == "bulk" || part == "all" {
        run_bulk(ctx, &mut out);
    }
    if part == "clear-next-table" {
        for batch in [1usize, 2, 8] {
            out.evaluations += 1;
            match guarded(|| clear_into_next_table(batch)).unwrap_or_else(Err) {
                Ok(n) => {
                    out.add("clear_next_table_cases", 1);
                    out.add("clear_next_table_references_held", n.unwrap_or(0) % 100);
                    out.add("clear_next_table_clear_waited_for_the_transfer", n.unwrap_or(0) / 100);
                    out.distinct.insert(batch as u64);
                }
                Err(e) if e.starts_with("INCONCLUSIVE") => out.inconclusive.push(e),
                Err(e) => {
                    out.violate("c03/clear-next-table", e, Json::obj().with("check", Json::s("c03")).with("part", Json::s("clear-next-table")).with("batch", Json::u(batch)));
                    break;
                }
            }
        }
        return out;
    }
    if part == "held" || part == "all" {
        if ctx.shard == 0 && ctx.args.u64("first-round", 0) == 0 {
            run_windows(ctx, &mut out);
        }
        if out.violations.is_empty() {
            run_held(ctx, &mut out);
        }
    }
    out
}

/// A writer is frozen at a window site inside a structural change (untreeify, treeify, the
/// split of a list or tree bin during a transfer, an unlink); a reader pins its guard *during
/// the freeze*, takes references through get_key_value on every key and through an iterator,
/// the writer is released, finishes, retires some more and flushes; only then does the reader
/// re-read everything it holds and unpin. Whatever the reader could reach while it was pinned
/// must still be intact: nothing may be retired before it is unreachable.
fn window_case(case: u32, batch: usize, nth: u64, step: Option<u64>, main_steps: &std::sync::Arc<std::sync::atomic::AtomicU64>) -> Result<Option<(String, u64)>, String> {
    use crate::orch::Actor;
    use flurry::verif as fvf;
    use std::sync::Arc;
    ledger().reset();
    let _ = corrupt_take();
    let (name, mode, cap, nkeys, site): (&str, u8, usize, u64, u32) = match case {
        0 => ("removals shrinking a tree bin until it is untreeified (remove)", CONSTANT, 64, 9, fvf::WIN_BEFORE_UNTREEIFY_STORE),
        1 => ("removals shrinking a tree bin until it is untreeified (compute_if_present -> None)", CONSTANT, 64, 9, fvf::WIN_BEFORE_UNTREEIFY_STORE),
        2 => ("removals in descending order shrinking a tree bin of grouped hashes", MODGROUPS, 64, 11, fvf::WIN_BEFORE_UNTREEIFY_STORE),
        3 => ("resize splitting list bins (before the forwarding marker is stored)", IDENTITY, 0, 12, fvf::WIN_TRANSFER_BEFORE_FORWARD),
        4 => ("resize splitting a tree bin (before the forwarding marker is stored)", SPLITTING, 64, 24, fvf::WIN_TRANSFER_BEFORE_FORWARD),
        5 => ("ninth colliding insert: list bin about to be treeified", CONSTANT, 64, 8, fvf::WIN_BEFORE_TREEIFY),
        6 => ("ninth colliding insert: tree bin just stored", CONSTANT, 64, 8, fvf::WIN_TREE_FIRST_STORED),
        7 => ("removals from list bins (node unlinked)", IDENTITY, 16, 30, fvf::WIN_UNLINKED),
        8 => ("resize moving a tree bin unsplit to the high half", ALLHIGH, 64, 12, fvf::WIN_TRANSFER_BEFORE_FORWARD),
        9 => ("removals from a tree bin that stays a tree (node unlinked)", CONSTANT, 64, 20, fvf::WIN_UNLINKED),
        10 => ("values replaced by insert in list bins", IDENTITY, 16, 10, fvf::WIN_HEAD_VALIDATED),
        11 => ("values replaced by insert and compute_if_present in a tree bin", CONSTANT, 64, 12, fvf::WIN_HEAD_VALIDATED),
        12 => ("clear over list bins and a tree bin", SPLITTING, 128, 30, fvf::WIN_HEAD_VALIDATED),
        _ => ("retain_force removing every other entry of list bins and a tree bin", SPLITTING, 128, 30, fvf::WIN_HEAD_VALIDATED),
    };
    let map: Arc<Map> = Arc::new(if cap == 0 { Map::with_hasher(HB::new(mode)) } else { Map::with_capacity_and_hasher(cap, HB::new(mode)) }.with_collector(seize::Collector::new().batch_size(batch)));
    let key_of = move |i: u64| if case == 3 || case == 7 || case == 10 { (i % 4) + 16 * (i / 4) } else { i };
    {
        let g = map.guard();
        for i in 0..nkeys {
            map.insert(TKey::new(key_of(i), 0), TVal::new(1000 + i), &g);
        }
    }
    let m = map.clone();
    let ms = main_steps.clone();
    let arm = |g: &crate::hook::Gate| match step {
        Some(j) => g.arm_step(j),
        None => g.arm_site(site, nth),
    };
    let writer = Actor::spawn("writer", 1, arm, move || {
        let g = m.guard();
        match case {
            0 | 7 | 9 => {
                for i in 0..nkeys {
                    m.remove(&KQ(key_of(i)), &g);
                }
            }
            1 => {
                for i in 0..nkeys {
                    m.compute_if_present(&KQ(i), |_, _| None, &g);
                }
            }
            2 => {
                for i in (0..nkeys).rev() {
                    m.remove(&KQ(i), &g);
                }
            }
            3 => {
                for i in 100..140 {
                    m.insert(TKey::new(i, 1), TVal::new(i), &g);
                }
            }
            4 | 8 => m.reserve(200, &g),
            10 | 11 => {
                for i in 0..nkeys {
                    if case == 11 && i % 2 == 0 {
                        m.compute_if_present(&KQ(key_of(i)), |_, _| Some(TVal::new(2000 + i)), &g);
                    } else {
                        m.insert(TKey::new(key_of(i), 1), TVal::new(2000 + i), &g);
                    }
                }
            }
            12 => m.clear(&g),
            13 => {
                m.retain_force(|k, _| k.k % 2 == 0, &g);
            }
            _ => {
                m.insert(TKey::new(8, 1), TVal::new(8), &g);
            }
        }
        ms.store(crate::hook::my_gate_steps(), std::sync::atomic::Ordering::SeqCst);
        // more retirements and a flush, so that whatever was retired early is really reclaimed
        for i in 0..6u64 {
            m.insert(TKey::new(7000 + i, 1), TVal::new(i), &g);
            m.remove(&KQ(7000 + i), &g);
        }
        g.flush();
        drop(g);
        let g2 = m.guard();
        for i in 0..6u64 {
            m.insert(TKey::new(7100 + i, 1), TVal::new(i), &g2);
            m.remove(&KQ(7100 + i), &g2);
        }
        g2.flush();
    });
    match writer.wait_frozen_or_done(20_000) {
        Ok(true) => {}
        Ok(false) => {
            writer.join().map_err(|e| format!("{name}: the writer panicked: {e}"))?;
            return Ok(None);
        }
        Err(e) => return Err(format!("INCONCLUSIVE {e}")),
    }
    let writer_site = writer.gate.frozen_site.load(std::sync::atomic::Ordering::SeqCst);
    // the reader pins now, inside the window
    let g = map.guard();
    let mut keys: Vec<(&TKey, u64, u64)> = Vec::new();
    let mut vals: Vec<(&TVal, u64, u64)> = Vec::new();
    for i in 0..nkeys.max(9) {
        if let Some((k, v)) = map.get_key_value(&KQ(key_of(i)), &g) {
            keys.push((k, k.id, k.k));
            vals.push((v, v.id, v.v));
        }
    }
    for (k, v) in map.iter(&g) {
        keys.push((k, k.id, k.k));
        vals.push((v, v.id, v.v));
    }
    let led = ledger();
    for (_, id, _) in &keys {
        led.lease(*id);
    }
    for (_, id, _) in &vals {
        led.lease(*id);
    }
    writer.gate.release();
    let mut problem = None;
    if let Err(e) = writer.wait_done(30_000) {
        return Err(format!("INCONCLUSIVE {e}"));
    }
    if let Err(e) = writer.join() {
        problem = Some(format!("the writer panicked: {e}"));
    }
    let held = (keys.len() + vals.len()) as u64;
    for (r, id, k) in &keys {
        if problem.is_none() && (!r.verify() || r.id != *id || r.k != *k || led.is_live(*id) == Some(false)) {
            problem = Some(format!(
                "a key reference (id {id}, key {k}) obtained under a guard that was pinned while the writer stood at the window and is still alive now reads id {} key {}; ledger: {}",
                r.id,
                r.k,
                if led.is_live(*id) == Some(false) { "this instance has been dropped" } else { "live" }
            ));
        }
    }
    for (r, id, v) in &vals {
        if problem.is_none() && (!r.verify() || r.id != *id || r.v != *v || led.is_live(*id) == Some(false)) {
            problem = Some(format!(
                "a value reference (id {id}, payload {v:#x}) obtained under a guard that was pinned while the writer stood at the window and is still alive now reads id {} payload {:#x}; ledger: {}",
                r.id,
                r.v,
                if led.is_live(*id) == Some(false) { "this instance has been dropped" } else { "live" }
            ));
        }
    }
    for (_, id, _) in &keys {
        led.release(*id);
    }
    for (_, id, _) in &vals {
        led.release(*id);
    }
    drop(keys);
    drop(vals);
    drop(g);
    let _ = corrupt_take();
    if let Some(p) = problem {
        std::mem::forget(map);
        let at = match step {
            Some(j) => format!("its instrumented step {j} (site {})", writer_site),
            None => format!("hit {nth} of site {site}"),
        };
        return Err(format!("{name} [collector batch {batch}, writer frozen at {at}]: {p}"));
    }
    Ok(Some((name.to_string(), held)))
}

/// `clear` that has moved on to the successor table while a transfer is still running: it must not
/// retire entries that lookups can still reach through an old bin that is not forwarded yet.
/// Deterministic: (1) a `clear` is frozen in the middle of its walk over the old table, (2) a
/// writer fills bin 2 again and starts the 16 -> 32 resize, frozen after it has stored both new
/// bins of bin 2 but before the forwarding marker, (3) the `clear` is released, meets a forwarded
/// (empty) bin, restarts in the successor table and empties it, (4) a reader pins NOW and looks
/// the keys of bin 2 up in the current (old) table, keeps the references, (5) everybody finishes
/// and flushes, (6) the reader re-reads what it holds.
pub fn clear_into_next_table(batch: usize) -> Result<Option<u64>, String> {
    use crate::orch::Actor;
    use flurry::verif as fvf;
    use std::sync::Arc;
    ledger().reset();
    let _ = corrupt_take();
    let map: Arc<Map> = Arc::new(Map::with_hasher(HB::new(IDENTITY)).with_collector(seize::Collector::new().batch_size(batch)));
    {
        let g = map.guard();
        for k in 8..16u64 {
            map.insert(TKey::new(k, 0), TVal::new(1000 + k), &g);
        }
    }
    // (1) clear, frozen after it has looked at bins 0..=4 of the 16-bin table (all empty)
    let m = map.clone();
    let clearer = Actor::spawn("clear", 1, |g| g.arm_step(7), move || {
        let g = m.guard();
        m.clear(&g);
        for i in 0..6u64 {
            m.insert(TKey::new(9000 + i, 1), TVal::new(i), &g);
            m.remove(&KQ(9000 + i), &g);
        }
        g.flush();
    });
    match clearer.wait_frozen_or_done(20_000) {
        Ok(true) => {}
        Ok(false) => return Err("INCONCLUSIVE clear finished before its freeze point".into()),
        Err(e) => return Err(format!("INCONCLUSIVE {e}")),
    }
    // (2) bin 2 gets the list 2 -> 18 again, two more entries bring the count to 12: resize
    let m = map.clone();
    let grower = Actor::spawn("grower", 2, |g| g.arm_site(fvf::WIN_TRANSFER_BEFORE_FORWARD, 9), move || {
        let g = m.guard();
        for k in [2u64, 18, 0, 1] {
            m.insert(TKey::new(k, 2), TVal::new(2000 + k), &g);
        }
        for i in 0..6u64 {
            m.insert(TKey::new(9100 + i, 2), TVal::new(i), &g);
            m.remove(&KQ(9100 + i), &g);
        }
        g.flush();
    });
    match grower.wait_frozen_or_done(20_000) {
        Ok(true) => {}
        Ok(false) => {
            clearer.gate.release();
            return Err("INCONCLUSIVE the grower finished without stopping inside the transfer of bin 2".into());
        }
        Err(e) => return Err(format!("INCONCLUSIVE {e}")),
    }
    let in_window = {
        let g = map.guard();
        let d = map.verif_dump(&g);
        d.len == 16 && matches!(d.bins.get(2), Some(flurry::verif::BinDump::List { .. })) && matches!(d.bins.get(5), Some(flurry::verif::BinDump::Moved))
    };
    if !in_window {
        clearer.gate.release();
        grower.gate.release();
        return Err("INCONCLUSIVE the transfer was not stopped between the new bins and the forwarding marker of bin 2".into());
    }
    // (3) clear goes on: forwarded bin 5 -> either it empties the successor table right away, or it
    // waits for the transfer to finish (then it is still running when the reader looks)
    clearer.gate.release();
    let clear_waited = clearer.wait_done(1_500).is_err();
    // (4) a reader that pins only now
    let g = map.guard();
    let mut held: Vec<(&TKey, u64, u64, &TVal, u64, u64)> = Vec::new();
    for k in [2u64, 18] {
        if let Some((kk, v)) = map.get_key_value(&KQ(k), &g) {
            held.push((kk, kk.id, kk.k, v, v.id, v.v));
        }
    }
    let led = ledger();
    for h in &held {
        led.lease(h.1);
        led.lease(h.4);
    }
    // (5)
    grower.gate.release();
    if let Err(e) = grower.wait_done(30_000) {
        return Err(format!("INCONCLUSIVE {e}"));
    }
    grower.join()?;
    if let Err(e) = clearer.wait_done(30_000) {
        return Err(format!("INCONCLUSIVE {e}"));
    }
    clearer.join()?;
    let _ = clear_waited;
    // (6)
    let mut problem = None;
    for (kk, kid, kkey, v, vid, vv) in &held {
        if !kk.verify() || kk.id != *kid || kk.k != *kkey || led.is_live(*kid) == Some(false) {
            problem = Some(format!(
                "key {kkey} was found by get_key_value under a guard pinned after clear() had returned; the reference (instance {kid}) now reads id {} key {}; ledger: {}",
                kk.id,
                kk.k,
                if led.is_live(*kid) == Some(false) { "this instance has been dropped" } else { "live" }
            ));
        } else if !v.verify() || v.id != *vid || v.v != *vv || led.is_live(*vid) == Some(false) {
            problem = Some(format!(
                "the value of key {kkey} was obtained by get_key_value under a guard pinned after clear() had returned; the reference (instance {vid}) now reads id {} payload {:#x}; ledger: {}",
                v.id,
                v.v,
                if led.is_live(*vid) == Some(false) { "this instance has been dropped" } else { "live" }
            ));
        }
    }
    for h in &held {
        led.release(h.1);
        led.release(h.4);
    }
    let n = held.len() as u64;
    drop(held);
    drop(g);
    let _ = corrupt_take();
    if let Some(p) = problem {
        std::mem::forget(map);
        return Err(format!(
            "clear() walked into the successor table while bin 2 of the old table was being transferred (new bins stored, forwarding marker not yet) and retired entries that the old bin still leads to [collector batch {batch}]: {p}"
        ));
    }
    Ok(Some(n + 100 * clear_waited as u64))
}

pub fn run_windows(ctx: &Ctx, out: &mut Outcome) {
    install_panic_capture();
    let main_steps = std::sync::Arc::new(std::sync::atomic::AtomicU64::new(0));
    let mut judge = |out: &mut Outcome, r: Result<Result<Option<(String, u64)>, String>, String>, case: u32, nth: u64, step: Option<u64>, batch: usize| -> Option<bool> {
        out.evaluations += 1;
        let r = match r {
            Ok(r) => r,
            Err(p) => Err(format!("panicked: {p}")),
        };
        match r {
            Ok(Some((name, held))) => {
                out.add(if step.is_some() { "window_cases_by_step" } else { "window_cases_by_site" }, 1);
                out.add("window_references_held_across_the_window", held);
                out.distinct.insert(fnv(fnv(fnv(fnv(FNV_OFFSET ^ 0x77, case as u64), nth), batch as u64), step.unwrap_or(0)));
                if nth == 1 && batch == 1 && step.is_none() {
                    out.list("window_scenarios", &name);
                }
                Some(true)
            }
            Ok(None) => Some(false),
            Err(e) if e.starts_with("INCONCLUSIVE") => {
                out.inconclusive.push(e);
                None
            }
            Err(e) => {
                out.violate(
                    "c03/window",
                    e,
                    Json::obj().with("check", Json::s("c03")).with("part", Json::s("held")).with("seed", Json::u(ctx.seed)).with("window_case", Json::u(case)).with("nth", Json::u(nth)).with("step", Json::u(step.unwrap_or(0))).with("batch", Json::u(batch)),
                );
                None
            }
        }
    };
    let only = ctx.args.u64("window-case", u64::MAX);
    for case in 0..14u32 {
        if only != u64::MAX && only != case as u64 {
            continue;
        }
        // (a) frozen at the n-th hit of the scenario's window site
        let mut reached = 0u64;
        'nth: for nth in 1..=ctx.q(24u64, 64) {
            for batch in [1usize, 2, 3] {
                if !ctx.time_left() {
                    break 'nth;
                }
                let r = guarded(|| window_case(case, batch, nth, None, &main_steps));
                match judge(out, r, case, nth, None, batch) {
                    Some(true) => reached += 1,
                    // the writer finished without reaching the nth hit: no further hits for this case
                    Some(false) => break 'nth,
                    None => return,
                }
            }
        }
        if reached == 0 {
            out.inconclusive.push(format!("window case {case}: the writer never reached its window site"));
        }
        // (b) frozen at every instrumented step of the structural operation itself
        main_steps.store(0, std::sync::atomic::Ordering::SeqCst);
        let r = guarded(|| window_case(case, 1, u64::MAX, None, &main_steps));
        if judge(out, r, case, 0, None, 1).is_none() {
            return;
        }
        let n = main_steps.load(std::sync::atomic::Ordering::SeqCst);
        out.max("window_steps_of_longest_operation", n as f64);
        let stride = if ctx.thorough { 1 } else { (n / 250).max(1) };
        let mut j = 1 + ctx.seed % stride;
        while j <= n {
            if !ctx.time_left() {
                break;
            }
            for batch in [1usize, 2] {
                let r = guarded(|| window_case(case, batch, 0, Some(j), &main_steps));
                if judge(out, r, case, 0, Some(j), batch).is_none() {
                    return;
                }
            }
            j += stride;
        }
    }
}

/// Readers keep every reference they obtain for the life of their guard (lookups, iterators,
/// previous values returned by insert / remove / remove_entry / compute, TryInsertError.current)
/// while writers replace, remove, clear, retain, resize and convert the same entries.
pub fn run_held(ctx: &Ctx, out: &mut Outcome) {
    use crate::freerun::*;
    use flurry::verif as fvf;
    install_panic_capture();
    let target = ctx.args.u64("rounds", ctx.q(150, 5000));
    let mut round = ctx.args.u64("first-round", 0);
    let target = target + round;
    while round < target && ctx.time_left() {
        let rs = splitmix(ctx.seed ^ splitmix(ctx.shard.wrapping_mul(0xC03) ^ round) ^ 0x33);
        let mut rng = Rng::new(rs);
        let mut cfg = super::c01::draw(&mut rng, ctx.thorough);
        cfg.set_facade = false;
        cfg.holder_threads = rng.range(1, 3) as usize;
        cfg.stable = rng.range(0, 4);
        cfg.threads = rng.range(2, 6) as usize;
        cfg.batch = *rng.pick(&[1usize, 1, 2, 8, 120]);
        cfg.mix.retain = 1;
        cfg.mix.retain_force = 1;
        cfg.mix.clear = if cfg.stable == 0 { 1 } else { 0 };
        cfg.mix.reserve = 2;
        cfg.mix.insert += 10;
        cfg.mix.remove += 6;
        let shape = rng.below(5);
        if shape < 2 {
            cfg.nkeys = cfg.nkeys.min(24);
        } else if shape == 2 {
            // one bin oscillating around the treeify / untreeify thresholds under held references
            cfg.mode = *rng.pick(&crate::hashers::CROWDED_MODES);
            cfg.cap = 64;
            cfg.nkeys = rng.range(9, 14);
            cfg.prefill = cfg.nkeys;
            cfg.batch = *rng.pick(&[1usize, 1, 2]);
            cfg.mix.clear = 0;
            cfg.mix.retain = 0;
            cfg.mix.retain_force = 0;
            cfg.mix.reserve = 0;
            cfg.mix.remove += 14;
            cfg.mix.compute_none += 6;
            cfg.holder_threads = rng.range(2, 3) as usize;
            cfg.focus_site = *rng.pick(&[fvf::WIN_BEFORE_UNTREEIFY_STORE, fvf::WIN_BEFORE_UNTREEIFY_STORE, fvf::WIN_BEFORE_TREEIFY, fvf::WIN_TREE_FIRST_STORED, 0]);
            cfg.delay_level = cfg.delay_level.max(1);
        } else {
            // growth through several generations under held references
            cfg.nkeys = *rng.pick(&[64u64, 128, 256]);
            cfg.cap = *rng.pick(&[0usize, 1, 2, 8]);
            cfg.mode = *rng.pick(&[crate::hashers::IDENTITY, crate::hashers::UNIFORM, crate::hashers::SPLITTING]);
            cfg.mix.insert += 25;
            cfg.focus_site = *rng.pick(&[0, fvf::WIN_TRANSFER_BETWEEN_BINS, fvf::WIN_TRANSFER_BEFORE_FORWARD, fvf::WIN_TRANSFER_AFTER_FORWARD, fvf::WIN_UNLINKED]);
        }
        cfg.ops = rng.range(40, 120) as usize;
        let r = run_round(&cfg, rs);
        round += 1;
        out.evaluations += 1;
        out.add("held_rounds", 1);
        out.add("references_held_and_reread", r.held_refs);
        out.add("instances_destroyed_while_round_was_running", r.ledger.drops_run);
        out.add("instances_destroyed_at_teardown", r.ledger.drops_teardown);
        let conv = r.events.iter().filter(|e| matches!(e.site, fvf::EV_TREEIFIED | fvf::EV_UNTREEIFIED | fvf::EV_TREE_SPLIT | fvf::EV_TABLE_PUBLISHED)).count() as u64;
        out.add("resizes_and_tree_conversions_under_held_references", conv);
        out.add(&format!("held_rounds_collector_batch_{}", cfg.batch), 1);
        if r.held_refs > 0 && r.ledger.drops_run > 0 {
            // non-trivial: memory was really reclaimed while references were being held
            out.distinct.insert(r.signature);
        }
        let mut problem = None;
        if !r.panics.is_empty() {
            problem = Some(format!("panic: {}", r.panics.join("; ")));
        } else if !r.held_failures.is_empty() {
            problem = Some(r.held_failures.join("; "));
        } else if !r.corrupt.is_empty() {
            problem = Some(format!("corrupt data read through a reference: {}", r.corrupt.join("; ")));
        } else if let Some(e) = r.ledger.errors.iter().find(|e| e.contains("guard") || e.contains("unknown id")) {
            problem = Some(e.clone());
        }
        if let Some(p) = problem {
            out.violate(
                "c03/held",
                format!("{p} [round {} of shard {} {}]", round - 1, ctx.shard, cfg.to_json()),
                Json::obj().with("check", Json::s("c03")).with("part", Json::s("held")).with("seed", Json::u(ctx.seed)).with("shard", Json::u(ctx.shard)).with("round", Json::u(round - 1)).with("config", cfg.to_json()),
            );
            break;
        }
    }
}
