//! C03 — references handed out under a guard never dangle; freed memory is never touched.
//! Part `bulk`: inputs to the bulk constructors (collect / FromIterator / extend), decided by
//! the sanitizer the worker is built with (ASan, Miri) plus integrity checks of everything read.
//! Part `held`: readers that keep references for the life of a guard while writers retire the
//! entries (see `freerun`).
use super::Ctx;
use crate::api::*;
use crate::hashers::*;
use crate::hook;
use crate::outcome::Outcome;
use crate::seq::{HintIter, Set};
use crate::types::*;
use crate::util::*;

fn bulk_case(mode: u8, n: u64, hint: u8, dup_every: u64, kind: u8) -> Result<(u64, u64), String> {
    set_default_mode(mode);
    // keys 0..n, every `dup_every`-th key repeated later with another value
    let mut items: Vec<(u64, u32, u64)> = (0..n).map(|k| (k, k as u32 + 1, 1000 + k)).collect();
    if dup_every > 0 {
        for k in (0..n).step_by(dup_every as usize) {
            items.push((k, 100_000 + k as u32, 5000 + k));
        }
    }
    let mut model: std::collections::BTreeMap<u64, (u32, u64)> = Default::default();
    for &(k, o, v) in &items {
        let oo = model.get(&k).map(|x| x.0).unwrap_or(o);
        model.insert(k, (oo, v));
    }
    let total = items.len();
    match kind {
        0 | 1 => {
            let base = items.into_iter().map(|(k, o, v)| (TKey::new(k, o), TVal::new(v)));
            let map: Map = if kind == 0 {
                match hint {
                    0 => base.collect(),
                    1 => base.filter(|_| true).collect(),
                    _ => HintIter { inner: base, lower: total / 4 }.collect(),
                }
            } else {
                // extend on a fresh (capacity 0) or small map
                let m = Map::with_hasher(HB::new(mode));
                let mut r = &m;
                match hint {
                    0 => r.extend(base),
                    1 => r.extend(base.filter(|_| true)),
                    _ => r.extend(HintIter { inner: base, lower: total / 4 }),
                }
                m
            };
            let g = map.guard();
            let api = Api { map: &map, facade: 0, guard: &g };
            let mut got = api.iter();
            got.sort_by_key(|e| e.k);
            let want: Vec<KV> = model.iter().map(|(k, x)| KV { k: *k, origin: x.0, v: x.1 }).collect();
            if got != want {
                return Err(format!("contents after bulk construction differ: got {} entries {:?}.., want {} entries", got.len(), got.iter().take(4).collect::<Vec<_>>(), want.len()));
            }
            for k in 0..n + 2 {
                if api.get(k) != model.get(&k).map(|x| x.1) {
                    return Err(format!("get({k}) after bulk construction = {:?}", api.get(k)));
                }
            }
            let d = map.verif_dump(&g);
            let hf = |k: &TKey| hash_of(mode, k.k);
            let (a, _) = crate::inspect::audit(&d, Some(&hf), map.len(), map.is_empty());
            if !a.ok() {
                return Err(a.failures.join("; "));
            }
            Ok((d.len as u64, a.tree_bins as u64))
        }
        4 => {
            // Clone builds a fresh map under a guard of its own, too
            let base = items.into_iter().map(|(k, o, v)| (TKey::new(k, o), TVal::new(v)));
            let src = Map::with_hasher(HB::new(mode));
            {
                let mut r = &src;
                r.extend(base);
            }
            let map = src.clone();
            if hint == 1 {
                drop(src);
            }
            let g = map.guard();
            let api = Api { map: &map, facade: 0, guard: &g };
            let mut got = api.iter();
            got.sort_by_key(|e| e.k);
            let want: Vec<KV> = model.iter().map(|(k, x)| KV { k: *k, origin: x.0, v: x.1 }).collect();
            if got != want {
                return Err(format!("contents of the clone differ: got {} entries, want {}", got.len(), want.len()));
            }
            let d = map.verif_dump(&g);
            let hf = |k: &TKey| hash_of(mode, k.k);
            let (a, _) = crate::inspect::audit(&d, Some(&hf), map.len(), map.is_empty());
            if !a.ok() {
                return Err(a.failures.join("; "));
            }
            Ok((d.len as u64, a.tree_bins as u64))
        }
        #[cfg(feature = "bulk")]
        3 => {
            // deserialisation is a bulk constructor too: a JSON object with the same keys (and
            // repeated keys), built into a fresh map by serde's visit_map
            let text = format!("{{{}}}", items.iter().map(|(k, _, v)| format!("\"{k}\":{v}")).collect::<Vec<_>>().join(","));
            let map: flurry::HashMap<u64, u64, HB> = serde_json::from_str(&text).map_err(|e| format!("from_str failed: {e}"))?;
            let g = map.guard();
            let mut got: Vec<(u64, u64)> = map.iter(&g).map(|(k, v)| (*k, *v)).collect();
            got.sort();
            let want: Vec<(u64, u64)> = model.iter().map(|(k, x)| (*k, x.1)).collect();
            if got != want {
                return Err(format!("contents after deserialisation differ: {} entries, want {}", got.len(), want.len()));
            }
            Ok((map.verif_table_len(&g) as u64, 0))
        }
        _ => {
            let base = items.into_iter().map(|(k, o, _)| TKey::new(k, o));
            let set: Set = match hint {
                0 => base.collect(),
                1 => base.filter(|_| true).collect(),
                _ => HintIter { inner: base, lower: total / 4 }.collect(),
            };
            let g = set.guard();
            let mut got: Vec<(u64, u32)> = set.iter(&g).map(|k| { k.verify(); (k.k, k.origin) }).collect();
            got.sort();
            let want: Vec<(u64, u32)> = model.iter().map(|(k, x)| (*k, x.0)).collect();
            if got != want {
                return Err(format!("set contents after from_iter differ: got {} entries, want {}", got.len(), want.len()));
            }
            Ok((set.verif_map().verif_table_len(&g) as u64, 0))
        }
    }
}

pub fn run_bulk(ctx: &Ctx, out: &mut Outcome) {
    let max_n: u64 = if cfg!(miri) { ctx.args.u64("max-n", 40) } else { ctx.args.u64("max-n", ctx.q(120, 200)) };
    let step = if cfg!(miri) { 3 } else { 1 };
    let modes = [UNIFORM, CONSTANT, SAMEBIN, MIXED, IDENTITY];
    let mut idx = 0u64;
    'outer: for &mode in &modes {
        for kind in 0..5u8 {
            if kind == 3 && !cfg!(feature = "bulk") {
                continue;
            }
            for hint in 0..3u8 {
                if (kind == 3 && hint > 0) || (kind == 4 && hint > 1) {
                    continue;
                }
                for dup in [0u64, 1, 3] {
                    let mut n = 0;
                    while n <= max_n {
                        idx += 1;
                        let mine = idx % ctx.shards == ctx.shard;
                        let nn = n;
                        n += if nn < 24 { 1 } else { step * (1 + nn / 24) };
                        if !mine {
                            continue;
                        }
                        if !ctx.time_left() {
                            out.inconclusive.push("bulk: time budget exhausted before the enumeration finished".into());
                            break 'outer;
                        }
                        ledger().reset();
                        let r = guarded(|| bulk_case(mode, nn, hint, dup, kind));
                        out.evaluations += 1;
                        out.add("bulk_cases", 1);
                        let kind_s = ["collect", "extend", "serde_from_str", "set_from_iter", "clone"][if kind == 3 { 2 } else if kind == 2 { 3 } else { kind as usize }];
                        let hint_s = ["exact", "zero", "low"][hint as usize];
                        let case = format!("{kind_s}/{}/hint={hint_s}/dup_every={dup}/n={nn}", mode_name(mode));
                        let fail = match r {
                            Ok(Ok((len, trees))) => {
                                // non-trivial: the construction had to resize or build a tree bin
                                out.max("max_table_len", len as f64);
                                if trees > 0 {
                                    out.add("bulk_cases_with_tree_bin", 1);
                                }
                                if nn >= 2 {
                                    out.distinct.insert(fnv_str(FNV_OFFSET, &case));
                                }
                                let c = corrupt_take();
                                let l = ledger().report();
                                if !c.is_empty() {
                                    Some(format!("corrupt data read through a reference: {}", c.join("; ")))
                                } else if !l.errors.is_empty() {
                                    Some(format!("drop ledger: {}", l.errors.join("; ")))
                                } else {
                                    None
                                }
                            }
                            Ok(Err(e)) => Some(e),
                            Err(p) => Some(format!("bulk constructor panicked: {p}")),
                        };
                        if out.samples.is_empty() && nn == 30 {
                            out.sample(Json::s(case.clone()));
                        }
                        if let Some(f) = fail {
                            out.violate(
                                format!("c03/bulk/{kind_s}"),
                                format!("{case}: {f}"),
                                Json::obj().with("check", Json::s("c03")).with("part", Json::s("bulk")).with("case", Json::s(case)),
                            );
                            break 'outer;
                        }
                    }
                }
            }
        }
    }
}

pub fn run(ctx: &Ctx) -> Outcome {
    let mut out = Outcome::new(
        "bulk: every (constructor in {collect, extend, HashSet::from_iter}, hasher in {uniform, constant, samebin, mixed, identity}, \
         size hint in {exact, zero, under-reported}, duplicates in {none, every key, every third}, n in 0..=max) — distinct = cases with n >= 2; \
         held: see counters",
    );
    hook::install();
    let part = ctx.args.str("part", "bulk");
    if part == "bulk" || part == "all" {
        run_bulk(ctx, &mut out);
    }
    if part == "held" || part == "all" {
        run_held(ctx, &mut out);
    }
    out
}

/// Readers keep every reference they obtain for the life of their guard (lookups, iterators,
/// previous values returned by insert / remove / remove_entry / compute, TryInsertError.current)
/// while writers replace, remove, clear, retain, resize and convert the same entries.
pub fn run_held(ctx: &Ctx, out: &mut Outcome) {
    use crate::freerun::*;
    use flurry::verif as fvf;
    install_panic_capture();
    let target = ctx.args.u64("rounds", ctx.q(150, 5000));
    let mut round = ctx.args.u64("first-round", 0);
    let target = target + round;
    while round < target && ctx.time_left() {
        let rs = splitmix(ctx.seed ^ splitmix(ctx.shard.wrapping_mul(0xC03) ^ round) ^ 0x33);
        let mut rng = Rng::new(rs);
        let mut cfg = super::c01::draw(&mut rng, ctx.thorough);
        cfg.set_facade = false;
        cfg.holder_threads = rng.range(1, 3) as usize;
        cfg.stable = rng.range(0, 4);
        cfg.threads = rng.range(2, 6) as usize;
        cfg.batch = *rng.pick(&[1usize, 1, 2, 8, 120]);
        cfg.mix.retain = 1;
        cfg.mix.retain_force = 1;
        cfg.mix.clear = if cfg.stable == 0 { 1 } else { 0 };
        cfg.mix.reserve = 2;
        cfg.mix.insert += 10;
        cfg.mix.remove += 6;
        if rng.chance(1, 2) {
            cfg.nkeys = cfg.nkeys.min(24);
        } else {
            // growth through several generations under held references
            cfg.nkeys = *rng.pick(&[64u64, 128, 256]);
            cfg.cap = *rng.pick(&[0usize, 1, 2, 8]);
            cfg.mode = *rng.pick(&[crate::hashers::IDENTITY, crate::hashers::UNIFORM, crate::hashers::SPLITTING]);
            cfg.mix.insert += 25;
            cfg.focus_site = *rng.pick(&[0, fvf::WIN_TRANSFER_BETWEEN_BINS, fvf::WIN_TRANSFER_BEFORE_FORWARD, fvf::WIN_TRANSFER_AFTER_FORWARD, fvf::WIN_UNLINKED]);
        }
        cfg.ops = rng.range(40, 120) as usize;
        let r = run_round(&cfg, rs);
        round += 1;
        out.evaluations += 1;
        out.add("held_rounds", 1);
        out.add("references_held_and_reread", r.held_refs);
        out.add("instances_destroyed_while_round_was_running", r.ledger.drops_run);
        out.add("instances_destroyed_at_teardown", r.ledger.drops_teardown);
        let conv = r.events.iter().filter(|e| matches!(e.site, fvf::EV_TREEIFIED | fvf::EV_UNTREEIFIED | fvf::EV_TREE_SPLIT | fvf::EV_TABLE_PUBLISHED)).count() as u64;
        out.add("resizes_and_tree_conversions_under_held_references", conv);
        out.add(&format!("held_rounds_collector_batch_{}", cfg.batch), 1);
        if r.held_refs > 0 && r.ledger.drops_run > 0 {
            // non-trivial: memory was really reclaimed while references were being held
            out.distinct.insert(r.signature);
        }
        let mut problem = None;
        if !r.panics.is_empty() {
            problem = Some(format!("panic: {}", r.panics.join("; ")));
        } else if !r.held_failures.is_empty() {
            problem = Some(r.held_failures.join("; "));
        } else if !r.corrupt.is_empty() {
            problem = Some(format!("corrupt data read through a reference: {}", r.corrupt.join("; ")));
        } else if let Some(e) = r.ledger.errors.iter().find(|e| e.contains("guard") || e.contains("unknown id")) {
            problem = Some(e.clone());
        }
        if let Some(p) = problem {
            out.violate(
                "c03/held",
                format!("{p} [round {} of shard {} {}]", round - 1, ctx.shard, cfg.to_json()),
                Json::obj().with("check", Json::s("c03")).with("part", Json::s("held")).with("seed", Json::u(ctx.seed)).with("shard", Json::u(ctx.shard)).with("round", Json::u(round - 1)).with("config", cfg.to_json()),
            );
            break;
        }
    }
}
