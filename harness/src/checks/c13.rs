//! C13 — retain removes only what its predicate rejected; retain_force always removes.
use super::Ctx;
use crate::freerun::*;
use crate::hashers::*;
use crate::hook;
use crate::outcome::Outcome;
use crate::util::*;
use crate::wgl;
use flurry::HashMap;
use std::sync::atomic::{AtomicU8, Ordering};
use std::sync::Arc;

type UMap = HashMap<u64, u64, HB>;

pub const RACES: [&str; 4] = ["replace", "remove", "remove+reinsert", "none"];

/// The predicate, when shown `key`, lets a writer finish its operation(s) on that key and only
/// then gives its verdict `false`.
fn predicate_race(mode: u8, n: u64, key: u64, race: u8, force: bool, out: &mut Outcome) -> Result<(), String> {
    let map: Arc<UMap> = Arc::new(HashMap::with_capacity_and_hasher(64, HB::new(mode)));
    {
        let g = map.guard();
        for k in 0..n {
            map.insert(k, 100 + k, &g);
        }
    }
    // 0 idle, 1 predicate is looking at `key`, 2 writer done
    let phase = Arc::new(AtomicU8::new(0));
    let (m, p) = (map.clone(), phase.clone());
    let writer = std::thread::spawn(move || {
        let t0 = std::time::Instant::now();
        while p.load(Ordering::SeqCst) != 1 {
            if t0.elapsed().as_secs() > 10 {
                return false;
            }
            std::thread::yield_now();
        }
        let g = m.guard();
        match race {
            0 => {
                m.insert(key, 9000, &g);
            }
            1 => {
                m.remove(&key, &g);
            }
            2 => {
                m.remove(&key, &g);
                m.insert(key, 9001, &g);
            }
            _ => {}
        }
        p.store(2, Ordering::SeqCst);
        true
    });
    let mut shown = 0u32;
    let mut seen_val = None;
    let mut second_val: Option<u64> = None;
    {
        let g = map.guard();
        let pred = |k: &u64, v: &u64| {
            if *k == key {
                shown += 1;
                if shown == 1 {
                    seen_val = Some(*v);
                    phase.store(1, Ordering::SeqCst);
                    let t0 = std::time::Instant::now();
                    while phase.load(Ordering::SeqCst) != 2 && t0.elapsed().as_secs() < 10 {
                        std::thread::yield_now();
                    }
                } else {
                    // a key removed and re-inserted behind the iterator's position is met again
                    // (as a new entry): reject it again
                    second_val = Some(*v);
                }
                false
            } else {
                true
            }
        };
        if force {
            map.retain_force(pred, &g);
        } else {
            map.retain(pred, &g);
        }
    }
    if shown == 0 {
        phase.store(1, Ordering::SeqCst);
    }
    let wrote = writer.join().map_err(|_| "writer panicked".to_string())?;
    if shown == 0 || shown > 2 || !wrote || (shown == 2 && race != 2) {
        return Err(format!("INCONCLUSIVE predicate saw key {key} {shown} times, writer ran: {wrote}"));
    }
    if shown == 2 {
        out.add("races_in_which_the_reinserted_entry_was_inspected_again", 1);
    }
    out.add("races_completed_between_inspection_and_removal", 1);
    let g = map.guard();
    let fin = map.get(&key, &g).copied();
    let which = if force { "retain_force" } else { "retain" };
    let expect: Option<u64> = match (force, race) {
        (true, _) => None,
        (false, 0) => Some(9000),
        (false, 1) => None,
        // the re-inserted entry survives unless the iteration met it again and rejected it too
        (false, 2) => if shown == 2 && second_val == Some(9001) { None } else { Some(9001) },
        (false, _) => None,
    };
    if fin != expect {
        return Err(format!(
            "{which}: the predicate inspected key {key} (value {:?}) and returned false after a concurrent '{}' had completed; the key finally holds {:?}, expected {:?}",
            seen_val, RACES[race as usize], fin, expect
        ));
    }
    // every other key is untouched
    for k in 0..n {
        if k != key && map.get(&k, &g).copied() != Some(100 + k) {
            return Err(format!("{which}: key {k}, for which the predicate returned true, holds {:?}", map.get(&k, &g)));
        }
    }
    if map.len() as u64 != n - 1 + fin.is_some() as u64 {
        return Err(format!("{which}: len() = {} after the race", map.len()));
    }
    Ok(())
}

/// The same race on collections whose values are zero-sized: a `HashSet<u64>` (kind 0,
/// `HashSet::retain`) and a `HashMap<u64, ()>` (kind 1 retain, kind 2 retain_force). A value of
/// type `()` that was put there by a later insert is still a different value from the one the
/// predicate inspected: the insert completed (and reported the key as present) after the
/// inspection and before the conditional removal, so `retain` must leave the entry.
fn predicate_race_unit(mode: u8, n: u64, key: u64, race: u8, kind: u8, out: &mut Outcome) -> Result<(), String> {
    use flurry::HashSet;
    let set: Arc<HashSet<u64, HB>> = Arc::new(HashSet::with_capacity_and_hasher(64, HB::new(mode)));
    let map: Arc<HashMap<u64, (), HB>> = Arc::new(HashMap::with_capacity_and_hasher(64, HB::new(mode)));
    {
        let (g, g2) = (set.guard(), map.guard());
        for k in 0..n {
            set.insert(k, &g);
            map.insert(k, (), &g2);
        }
    }
    let phase = Arc::new(AtomicU8::new(0));
    let (st, m, p) = (set.clone(), map.clone(), phase.clone());
    // what the writer's insert reported: Some(true) = "the key was already present"
    let writer = std::thread::spawn(move || -> Option<Option<bool>> {
        let t0 = std::time::Instant::now();
        while p.load(Ordering::SeqCst) != 1 {
            if t0.elapsed().as_secs() > 10 {
                return None;
            }
            std::thread::yield_now();
        }
        let mut present = None;
        if kind == 0 {
            let g = st.guard();
            match race {
                0 => present = Some(!st.insert(key, &g)),
                1 => {
                    st.remove(&key, &g);
                }
                2 => {
                    st.remove(&key, &g);
                    st.insert(key, &g);
                }
                _ => {}
            }
        } else {
            let g = m.guard();
            match race {
                0 => present = Some(m.insert(key, (), &g).is_some()),
                1 => {
                    m.remove(&key, &g);
                }
                2 => {
                    m.remove(&key, &g);
                    m.insert(key, (), &g);
                }
                _ => {}
            }
        }
        p.store(2, Ordering::SeqCst);
        Some(present)
    });
    let mut shown = 0u32;
    {
        let mut inspect = |k: &u64| {
            if *k == key {
                shown += 1;
                if shown == 1 {
                    phase.store(1, Ordering::SeqCst);
                    let t0 = std::time::Instant::now();
                    while phase.load(Ordering::SeqCst) != 2 && t0.elapsed().as_secs() < 10 {
                        std::thread::yield_now();
                    }
                }
                false
            } else {
                true
            }
        };
        match kind {
            0 => {
                let g = set.guard();
                set.retain(|k| inspect(k), &g);
            }
            1 => {
                let g = map.guard();
                map.retain(|k, _| inspect(k), &g);
            }
            _ => {
                let g = map.guard();
                map.retain_force(|k, _| inspect(k), &g);
            }
        }
    }
    if shown == 0 {
        phase.store(1, Ordering::SeqCst);
    }
    let wrote = writer.join().map_err(|_| "writer panicked".to_string())?;
    let Some(insert_saw_present) = wrote else {
        return Err(format!("INCONCLUSIVE predicate saw key {key} {shown} times, the writer never ran"));
    };
    if shown == 0 || shown > 2 || (shown == 2 && race != 2) {
        return Err(format!("INCONCLUSIVE predicate saw key {key} {shown} times"));
    }
    out.add("races_completed_between_inspection_and_removal", 1);
    out.add("races_on_zero_sized_values", 1);
    let fin = if kind == 0 { set.contains(&key, &set.guard()) } else { map.contains_key(&key, &map.guard()) };
    let which = ["HashSet::retain", "retain on HashMap<_, ()>", "retain_force on HashMap<_, ()>"][kind as usize];
    let expect = match (kind, race) {
        (2, _) => false,
        (_, 0) => true,
        (_, 1) => false,
        (_, 2) => shown != 2,
        _ => false,
    };
    if fin != expect {
        return Err(format!(
            "{which}: the predicate inspected key {key} and returned false after a concurrent '{}' had completed{}; the key is finally {}, expected {}",
            RACES[race as usize],
            match insert_saw_present {
                Some(true) => " (the insert reported the key as present, i.e. it replaced the value)",
                Some(false) => " (the insert reported the key as new)",
                None => "",
            },
            if fin { "present" } else { "absent" },
            if expect { "present" } else { "absent" }
        ));
    }
    let len = if kind == 0 { set.len() } else { map.len() } as u64;
    if len != n - 1 + fin as u64 {
        return Err(format!("{which}: len() = {len} after the race"));
    }
    Ok(())
}

/// Without concurrent writers retain / retain_force equal the standard retain: every entry is
/// shown to the predicate exactly once and exactly the rejected ones are gone.
fn sequential(mode: u8, n: u64, pred_kind: u8, force: bool, via_set: bool) -> Result<(), String> {
    let keep = |k: u64| match pred_kind {
        0 => false,
        1 => true,
        2 => k % 2 == 0,
        3 => k % 3 != 0,
        _ => k < n / 2,
    };
    let which = if via_set { "HashSet::retain" } else if force { "retain_force" } else { "retain" };
    let mut shown: Vec<u64> = Vec::new();
    let remaining: Vec<u64>;
    let len;
    if via_set {
        let s: flurry::HashSet<u64, HB> = flurry::HashSet::with_capacity_and_hasher(64, HB::new(mode));
        let g = s.guard();
        for k in 0..n {
            s.insert(k, &g);
        }
        s.retain(|k| { shown.push(*k); keep(*k) }, &g);
        let mut r: Vec<u64> = s.iter(&g).copied().collect();
        r.sort();
        remaining = r;
        len = s.len();
    } else {
        let m: UMap = HashMap::with_capacity_and_hasher(64, HB::new(mode));
        let g = m.guard();
        for k in 0..n {
            m.insert(k, 100 + k, &g);
        }
        let p = |k: &u64, v: &u64| {
            shown.push(*k);
            *v == 100 + *k && keep(*k)
        };
        if force {
            m.retain_force(p, &g)
        } else {
            m.pin().retain(p)
        }
        let mut r: Vec<u64> = m.iter(&g).map(|x| *x.0).collect();
        r.sort();
        remaining = r;
        len = m.len();
    }
    shown.sort();
    let all: Vec<u64> = (0..n).collect();
    if shown != all {
        return Err(format!("{which} on {n} keys (hasher {}): the predicate was shown {:?}, expected every key exactly once", mode_name(mode), shown));
    }
    let want: Vec<u64> = (0..n).filter(|k| keep(*k)).collect();
    if remaining != want || len != want.len() {
        return Err(format!("{which} on {n} keys (hasher {}), predicate {pred_kind}: {} entries remain ({:?}..), the standard retain leaves {}", mode_name(mode), remaining.len(), remaining.iter().take(6).collect::<Vec<_>>(), want.len()));
    }
    Ok(())
}

pub fn run(ctx: &Ctx) -> Outcome {
    let mut out = Outcome::new(
        "(i) predicate-side races: while retain/retain_force's predicate is looking at key k, a writer completes replace / remove / remove+reinsert of k, then the predicate returns false (list and tree bins, every key position); \
         (ii) free-run rounds with retain and retain_force among per-key calls: each rejected pair becomes a conditional-remove (retain) or unconditional-remove (retain_force) pseudo-call spanning [verdict, return] in the per-key linearizability check; \
         distinct = distinct race cases + interleaving signatures of rounds with at least one rejected pair",
    );
    hook::install();
    install_panic_capture();
    if ctx.shard == 0 {
        for mode in [UNIFORM, CONSTANT, SAMEBIN, MIXED, SPLITTING, MODGROUPS, REVERSED, ALLHIGH] {
            for n in [0u64, 1, 2, 7, 8, 9, 12, 20, 40] {
                for pred in 0..5u8 {
                    for variant in 0..3u8 {
                        out.evaluations += 1;
                        out.add("sequential_retain_cases", 1);
                        out.distinct.insert(fnv(fnv(fnv(fnv(FNV_OFFSET ^ 0x5e9, mode as u64), n), pred as u64), variant as u64));
                        if let Err(e) = guarded(|| sequential(mode, n, pred, variant == 1, variant == 2)).unwrap_or_else(|p| Err(p)) {
                            out.violate("c13/sequential", e, Json::obj().with("check", Json::s("c13")).with("part", Json::s("sequential")).with("hasher", Json::s(mode_name(mode))).with("n", Json::u(n)).with("predicate", Json::u(pred)).with("variant", Json::u(variant)));
                            return out;
                        }
                    }
                }
            }
        }
    }
    let mut idx = 0u64;
    'races: for &(mode, n) in &[(UNIFORM, 5u64), (CONSTANT, 6), (CONSTANT, 13), (SAMEBIN, 16), (SPLITTING, 20)] {
        for key in 0..n {
            for race in 0..4u8 {
                for force in [false, true] {
                    idx += 1;
                    if idx % ctx.shards != ctx.shard {
                        continue;
                    }
                    if !ctx.time_left() {
                        break 'races;
                    }
                    out.evaluations += 1;
                    out.add("predicate_race_cases", 1);
                    out.distinct.insert(fnv(fnv(fnv(fnv(fnv(FNV_OFFSET ^ 13, mode as u64), n), key), race as u64), force as u64));
                    match guarded(|| predicate_race(mode, n, key, race, force, &mut out)) {
                        Ok(Ok(())) => {}
                        Ok(Err(e)) if e.starts_with("INCONCLUSIVE") => out.inconclusive.push(e),
                        Ok(Err(e)) | Err(e) => {
                            out.violate(
                                format!("c13/predicate-race/{}", if force { "retain_force" } else { "retain" }),
                                format!("{e} [hasher {}, {n} keys]", mode_name(mode)),
                                Json::obj().with("check", Json::s("c13")).with("hasher", Json::s(mode_name(mode))).with("n", Json::u(n)).with("key", Json::u(key)).with("race", Json::s(RACES[race as usize])).with("force", Json::Bool(force)),
                            );
                            return out;
                        }
                    }
                }
            }
        }
    }
    'unit: for &(mode, n) in &[(UNIFORM, 5u64), (CONSTANT, 6), (CONSTANT, 13), (MODGROUPS, 12)] {
        for key in 0..n {
            for race in 0..3u8 {
                for kind in 0..3u8 {
                    idx += 1;
                    if idx % ctx.shards != ctx.shard {
                        continue;
                    }
                    if !ctx.time_left() {
                        break 'unit;
                    }
                    out.evaluations += 1;
                    out.add("predicate_race_cases", 1);
                    out.distinct.insert(fnv(fnv(fnv(fnv(fnv(FNV_OFFSET ^ 0x130, mode as u64), n), key), race as u64), kind as u64));
                    match guarded(|| predicate_race_unit(mode, n, key, race, kind, &mut out)) {
                        Ok(Ok(())) => {}
                        Ok(Err(e)) if e.starts_with("INCONCLUSIVE") => out.inconclusive.push(e),
                        Ok(Err(e)) | Err(e) => {
                            out.violate(
                                "c13/predicate-race/zero-sized",
                                format!("{e} [hasher {}, {n} keys]", mode_name(mode)),
                                Json::obj().with("check", Json::s("c13")).with("hasher", Json::s(mode_name(mode))).with("n", Json::u(n)).with("key", Json::u(key)).with("race", Json::s(RACES[race as usize])).with("kind", Json::u(kind)),
                            );
                            return out;
                        }
                    }
                }
            }
        }
    }
    out.sample(Json::s("constant hasher, 13 keys in a tree bin: retain's predicate inspects key 4, a writer's insert(4, 9000) completes, predicate returns false: key 4 must still hold 9000; with retain_force it must be gone"));
    let target = ctx.args.u64("rounds", ctx.q(150, 5000));
    let mut round = ctx.args.u64("first-round", 0);
    let target = target + round;
    while round < target && ctx.time_left() {
        let rs = splitmix(ctx.seed ^ splitmix(ctx.shard.wrapping_mul(0xC13) ^ round) ^ 0x13);
        let mut rng = Rng::new(rs);
        let mut cfg = super::c01::draw(&mut rng, ctx.thorough);
        cfg.set_facade = false;
        cfg.mix.retain = 3;
        cfg.mix.retain_force = 3;
        cfg.mix.clear = 0;
        cfg.nkeys = *rng.pick(&[4u64, 6, 8, 12]);
        cfg.threads = cfg.threads.min(6);
        cfg.ops = rng.range(12, 30) as usize;
        let r = run_round(&cfg, rs);
        round += 1;
        out.evaluations += 1;
        out.add("freerun_rounds", 1);
        if !r.panics.is_empty() {
            out.violate("c13/freerun/panic", format!("{} [{}]", r.panics.join("; "), cfg.to_json()), Json::obj().with("check", Json::s("c13")).with("seed", Json::u(ctx.seed)).with("shard", Json::u(ctx.shard)).with("round", Json::u(round - 1)));
            break;
        }
        let pre = r.prefill.clone();
        let init = move |k: u64| pre.get(&k).copied();
        let hr = wgl::check_history(&r.history, &init, 1 << 21);
        let cond = r.history.iter().filter(|e| matches!(e.op, wgl::Op::CondRemove { .. })).count() as u64;
        let forced = r.history.iter().filter(|e| matches!(e.op, wgl::Op::ForceRemove)).count() as u64;
        out.add("retain_rejections_checked", cond);
        out.add("retain_force_rejections_checked", forced);
        out.add("key_histories_checked", hr.keys_checked);
        out.add("key_histories_unchecked_budget", hr.keys_inconclusive);
        if cond + forced > 0 {
            out.distinct.insert(r.signature);
        }
        if let Some((k, h)) = hr.violation {
            super::c01::history_violation(&mut out, "c13", ctx, round - 1, &cfg, k, &h, init(k));
            break;
        }
    }
    out
}
