//! Small concurrent programs executed under the serial token-passing scheduler: thousands of
//! distinct, exactly replayable schedules per minute. Serves C01 (linearizability of every
//! schedule), C11 (logical deadlock / livelock verdicts), C08 (RMW histories) and C05 (audit at
//! the end of every schedule).
use super::Ctx;
use crate::api::*;
use crate::hashers::*;
use crate::hook;
use crate::outcome::Outcome;
use crate::serial::{self, Verdict};
use crate::types::*;
use crate::util::*;
use crate::wgl::{self, Ev, Op};
use std::sync::{Arc, Mutex};

#[derive(Clone, Debug)]
pub struct Prog {
    pub mode: u8,
    pub cap: usize,
    pub nkeys: u64,
    pub prefill: u64,
    pub threads: usize,
    pub ops: usize,
    pub switch_den: u64,
    pub readers: usize,
    /// percentage of calls that are `reserve(1..=8)` (not part of the per-key histories)
    pub reserve_pct: u64,
    /// parks return spuriously with probability 1/n (0 = never)
    pub spurious_one_in: u64,
    /// percentage of calls that are `clear()` (each enters the per-key histories as optional removals)
    pub clear_pct: u64,
    pub seed: u64,
}

impl Prog {
    pub fn to_json(&self) -> Json {
        Json::obj()
            .with("hasher", Json::s(mode_name(self.mode)))
            .with("cap", Json::u(self.cap))
            .with("keys", Json::u(self.nkeys))
            .with("prefill", Json::u(self.prefill))
            .with("threads", Json::u(self.threads))
            .with("ops_per_thread", Json::u(self.ops))
            .with("switch_one_in", Json::u(self.switch_den))
            .with("pure_readers", Json::u(self.readers))
            .with("reserve_percent", Json::u(self.reserve_pct))
            .with("spurious_wakeup_one_in", Json::u(self.spurious_one_in))
            .with("clear_percent", Json::u(self.clear_pct))
            .with("program_seed", Json::u(self.seed))
    }
}

pub fn draw(rng: &mut Rng) -> Prog {
    let shape = rng.below(10);
    let mut p = Prog {
        mode: *rng.pick(&[UNIFORM, IDENTITY, CONSTANT, SAMEBIN, MIXED]),
        cap: *rng.pick(&[0usize, 1, 2, 16, 64]),
        nkeys: rng.range(2, 10),
        prefill: rng.range(0, 4),
        threads: rng.range(2, 4) as usize,
        ops: rng.range(3, 8) as usize,
        switch_den: *rng.pick(&[2u64, 3, 4, 8]),
        readers: 0,
        reserve_pct: 0,
        spurious_one_in: 0,
        clear_pct: 0,
        seed: rng.next(),
    };
    match shape {
        0 | 1 => {
            // one bin around the treeify / untreeify thresholds, with pure readers
            p.mode = *rng.pick(&[CONSTANT, SAMEBIN, MIXED]);
            p.cap = 64;
            p.nkeys = rng.range(10, 14);
            p.prefill = rng.range(7, 12);
            p.readers = rng.range(0, 2) as usize;
            p.threads = p.threads.max(p.readers + 1);
            p.spurious_one_in = *rng.pick(&[0u64, 0, 2, 3]);
        }
        2 => {
            // growth from a tiny table
            p.mode = *rng.pick(&[IDENTITY, UNIFORM]);
            p.cap = *rng.pick(&[0usize, 1, 2]);
            p.nkeys = rng.range(8, 30);
            p.prefill = 0;
            p.ops = rng.range(5, 12) as usize;
            p.reserve_pct = *rng.pick(&[0u64, 0, 10]);
            p.clear_pct = *rng.pick(&[0u64, 6, 12]);
        }
        8 | 9 => {
            // two readers inside a tree bin, writers that need the root lock, parks that may return spuriously
            p.mode = *rng.pick(&[CONSTANT, SAMEBIN, MIXED, MODGROUPS]);
            p.cap = 64;
            p.nkeys = rng.range(10, 14);
            p.prefill = rng.range(9, 12);
            p.readers = 2;
            p.threads = rng.range(3, 4) as usize;
            p.ops = rng.range(3, 6) as usize;
            p.spurious_one_in = *rng.pick(&[1u64, 2, 2, 3]);
            p.switch_den = *rng.pick(&[1u64, 2, 2, 3]);
        }
        6 | 7 => {
            // the race for the lazily created table: first inserts against small reserves
            p.cap = 0;
            p.prefill = 0;
            p.threads = rng.range(2, 4) as usize;
            p.ops = rng.range(1, 4) as usize;
            p.reserve_pct = *rng.pick(&[30u64, 50]);
            p.switch_den = *rng.pick(&[1u64, 2, 3]);
        }
        _ => {}
    }
    p
}

struct Run {
    events: Vec<hook::EventRec>,
    final_len: usize,
    history: Vec<Ev>,
    prefill: std::collections::BTreeMap<u64, u64>,
    audit_failures: Vec<String>,
    res: serial::RunResult,
}

fn execute(p: &Prog, sched_seed: u64, replay: Option<Vec<u8>>) -> Run {
    ledger().reset();
    let _ = hook::events_take();
    hook::events_enable(true);
    let map: Arc<Map> = Arc::new(if p.cap == 0 { Map::with_hasher(HB::new(p.mode)) } else { Map::with_capacity_and_hasher(p.cap, HB::new(p.mode)) }.with_collector(seize::Collector::new().batch_size(1)));
    let mut prefill = std::collections::BTreeMap::new();
    {
        let g = map.guard();
        for k in 0..p.prefill.min(p.nkeys) {
            map.insert(TKey::new(k, 0), TVal::new(k + 1), &g);
            prefill.insert(k, k + 1);
        }
    }
    let hist: Arc<Mutex<Vec<Ev>>> = Arc::new(Mutex::new(Vec::new()));
    let (m, h, pp) = (map.clone(), hist.clone(), p.clone());
    serial::set_spurious_wakeups(p.spurious_one_in);
    let res = serial::run(p.threads, sched_seed, p.switch_den, 400_000, replay, move |t| {
        let mut rng = Rng::derive(pp.seed, t as u64, 7);
        let mut evs = Vec::new();
        let mut ctr = 0u64;
        let g = m.guard();
        let api = Api { map: &m, facade: (t % 4) as u8, guard: &g };
        let reader = t < pp.readers;
        for _ in 0..pp.ops {
            let key = rng.below(pp.nkeys);
            if !reader && rng.below(100) < pp.clear_pct {
                let call = tick();
                m.clear(&g);
                let ret = tick();
                // a clear restarts in the new table whenever it meets a forwarding marker, so it
                // may remove a key, see it re-inserted and remove it again once per table it walks
                // (copies are added after the run, when the number of resizes is known); clear is not
                // one of C01's per-key operations and its removals get no upper end here
                let _ = ret;
                for k in 0..pp.nkeys {
                    evs.push(Ev { thread: t as u16, key: k, op: Op::MaybeRemove, call, ret: u64::MAX });
                }
                continue;
            }
            if !reader && rng.below(100) < pp.reserve_pct {
                m.reserve(rng.range(1, 8) as usize, &g);
                continue;
            }
            let w = if reader { rng.below(30) } else { rng.below(100) };
            ctr += 1;
            let v = ((t as u64 + 1) << 32) | ctr;
            let call = tick();
            let op = match w {
                0..=19 => Op::Get { res: api.get(key) },
                20..=29 => Op::Contains { res: api.contains_key(key) },
                30..=54 => Op::Insert { v, old: api.insert(key, t as u32, v) },
                55..=64 => match api.try_insert(key, t as u32, v) {
                    Ok(_) => Op::TryInsert { v, ok: true, cur: None },
                    Err((c, _)) => Op::TryInsert { v, ok: false, cur: Some(c) },
                },
                65..=84 => Op::Remove { res: api.remove(key) },
                _ => {
                    let mut out = None;
                    let variant = v % 2;
                    let r = api.compute(key, |_, _| {
                        let o = if variant == 0 { Some(v) } else { None };
                        out = o;
                        o
                    });
                    Op::Compute { saw: if r.calls > 1 { Some(u64::MAX) } else { r.saw.map(|s| s.v) }, out, res: r.res }
                }
            };
            let ret = tick();
            evs.push(Ev { thread: t as u16, key, op, call, ret });
        }
        drop(g);
        h.lock().unwrap().extend(evs);
    });
    hook::events_enable(false);
    let events = hook::events_take();
    let mut final_len = 0;
    let mut history = std::mem::take(&mut *hist.lock().unwrap());
    // one more optional removal per resize of the run for every key a `clear` covers
    let generations = events.iter().filter(|e| e.site == flurry::verif::EV_RESIZE_BEGIN).count();
    let extra: Vec<Ev> = history.iter().filter(|e| matches!(e.op, Op::MaybeRemove)).copied().collect();
    for _ in 0..generations {
        history.extend(extra.iter().copied());
    }
    let mut audit_failures = Vec::new();
    if res.verdict == Verdict::Completed && !res.watchdog {
        let g = map.guard();
        for k in 0..p.nkeys {
            let call = tick();
            let r = map.get(&KQ(k), &g).map(|v| v.get());
            let ret = tick();
            history.push(Ev { thread: 999, key: k, op: Op::Get { res: r }, call, ret });
        }
        let d = map.verif_dump(&g);
        let hf = |k: &TKey| hash_of(p.mode, k.k);
        let (a, _) = crate::inspect::audit(&d, Some(&hf), map.len(), map.is_empty());
        audit_failures = a.failures;
        final_len = d.len;
        if !audit_failures.is_empty() {
            // a map in this state may panic in its destructor: report the audit instead
            drop(d);
            drop(g);
            std::mem::forget(map);
            return Run { events, final_len, history, prefill, audit_failures, res };
        }
    } else {
        // threads may still be inside the map
        std::mem::forget(map);
    }
    Run { events, final_len, history, prefill, audit_failures, res }
}

pub fn run(ctx: &Ctx, prop: &str) -> Outcome {
    let mut out = Outcome::new(
        "small programs (2-4 threads x 3-12 calls, 2-30 keys, tiny / crowded / growing tables, optional pure readers) executed under the serial token-passing scheduler: preemption at every hook site with probability 1/2-1/8, \
         blocking modelled (lock polling, park/unpark), seeded and exactly replayable; every schedule must complete (no logical deadlock, within the step budget), leave a well-formed unlocked table, and its history must be linearizable; \
         distinct = distinct schedules (hash of the token-decision sequence)",
    );
    hook::install();
    install_panic_capture();
    hook::set_delay_level(0);
    let target = ctx.args.u64("schedules", ctx.q(1500, 60_000));
    let mut i = ctx.args.u64("first-schedule", 0);
    let target = target + i;
    while i < target && ctx.time_left() {
        let s = splitmix(ctx.seed ^ splitmix(ctx.shard.wrapping_mul(0x5E41) ^ i));
        let mut rng = Rng::new(s);
        // 8 schedules per program
        let mut prng = Rng::new(splitmix(ctx.seed ^ (i / 8).wrapping_mul(0x9E37) ^ ctx.shard << 40));
        let mut p = draw(&mut prng);
        if prop == "c10" {
            // growing tables only: every schedule contains resizes, often with helpers
            p.mode = *prng.pick(&[IDENTITY, UNIFORM]);
            p.cap = *prng.pick(&[0usize, 1, 2, 3]);
            p.nkeys = prng.range(12, 40);
            p.prefill = 0;
            p.threads = prng.range(2, 4) as usize;
            p.ops = prng.range(6, 14) as usize;
            p.readers = 0;
        }
        i += 1;
        let sched_seed = rng.next();
        let r = execute(&p, sched_seed, None);
        out.evaluations += 1;
        out.add("schedules", 1);
        out.add("steps", r.res.steps);
        out.add("token_switches", r.res.switches);
        out.add("lock_waits_modelled", r.res.lock_waits);
        out.add("parks_modelled", r.res.parks);
        out.add("spurious_wakeups_injected", r.res.spurious);
        out.distinct.insert(r.res.trace_hash);
        let replay = |v: &serial::RunResult| {
            Json::obj()
                .with("check", Json::s(prop))
                .with("engine", Json::s("serial"))
                .with("seed", Json::u(ctx.seed))
                .with("shard", Json::u(ctx.shard))
                .with("schedule", Json::u(i - 1))
                .with("scheduler_seed", Json::u(sched_seed))
                .with("program", p.to_json())
                .with("decisions_total", Json::u(v.decisions.len()))
                // (the schedule is re-derived from the seeds; the decisions are for the reader)
                .with("decisions", Json::s(v.decisions.iter().take(4000).map(|d| char::from(b'0' + *d)).collect::<String>()))
        };
        if r.res.watchdog {
            out.inconclusive.push(format!("serial schedule {} hit the wall-clock watchdog (a blocking call without a hook?) {}", i - 1, p.to_json()));
            break;
        }
        match &r.res.verdict {
            Verdict::Completed => {}
            // a liveness verdict found while exploring for another property belongs to C11
            Verdict::Deadlock(d) | Verdict::Livelock(d) if prop != "c11" => {
                out.add("foreign_findings", 1);
                if out.inconclusive.len() < 3 {
                    out.inconclusive.push(format!("schedule {} did not terminate (belongs to C11, this check could not finish its exploration): {d} [{}]", i - 1, p.to_json()));
                }
                continue;
            }
            Verdict::Deadlock(d) => {
                out.violate("c11/serial/deadlock", format!("{d} [schedule {} of shard {}, {}]", i - 1, ctx.shard, p.to_json()), replay(&r.res));
                break;
            }
            Verdict::Livelock(d) => {
                out.violate("c11/serial/livelock", format!("{d} [schedule {} of shard {}, {}]", i - 1, ctx.shard, p.to_json()), replay(&r.res));
                break;
            }
            Verdict::Panicked(d) => {
                out.violate(format!("{prop}/serial/panic"), format!("{d} [schedule {} of shard {}, {}]", i - 1, ctx.shard, p.to_json()), replay(&r.res));
                break;
            }
        }
        if !r.audit_failures.is_empty() {
            let lockish: Vec<&String> = r.audit_failures.iter().filter(|f| f.contains("lock") || f.contains("waiter")).collect();
            if prop == "c11" && lockish.is_empty() {
                // a malformed table at the end of a schedule is C05's / C01's business
                // (keep exploring: a liveness violation found later still counts)
                out.add("foreign_findings", 1);
                if out.inconclusive.len() < 3 {
                    out.inconclusive.push(format!("schedule {} ended with a malformed table (belongs to C05, not a liveness verdict): {}", i - 1, r.audit_failures.join("; ")));
                }
                continue;
            }
            out.violate(
                if prop == "c11" { "c11/serial/lock-state".to_string() } else { format!("{prop}/serial/structure") },
                format!("at the end of the schedule: {} [schedule {} of shard {}, {}]", r.audit_failures.join("; "), i - 1, ctx.shard, p.to_json()),
                replay(&r.res),
            );
            break;
        }
        if prop == "c10" {
            match crate::freerun::resize_monitor(&r.events, r.final_len) {
                Ok(st) => {
                    out.add("generations", st.generations);
                    out.add("generations_multi_helper", st.multi_helper_generations);
                    out.add("bins_forwarded", st.bins_forwarded);
                }
                Err(e) => {
                    out.violate("c10/serial", format!("{e} [schedule {} of shard {}, {}]", i - 1, ctx.shard, p.to_json()), replay(&r.res));
                    break;
                }
            }
            continue;
        }
        let pre = r.prefill.clone();
        let init = move |k: u64| pre.get(&k).copied();
        let hr = wgl::check_history(&r.history, &init, 1 << 21);
        out.add("key_histories_checked", hr.keys_checked);
        out.add("contended_key_histories", hr.contended_keys);
        out.max("max_overlapping_calls_on_one_key", hr.max_overlap as f64);
        if out.samples.is_empty() && r.res.lock_waits > 0 {
            out.sample(Json::obj().with("program", p.to_json()).with("steps", Json::u(r.res.steps)).with("token_switches", Json::u(r.res.switches)).with("decisions", Json::s(r.res.decisions.iter().take(120).map(|d| char::from(b'0' + *d)).collect::<String>())));
        }
        if hr.violation.is_some() && prop == "c11" {
            out.add("foreign_findings", 1);
            if out.inconclusive.len() < 3 {
                out.inconclusive.push(format!("schedule {} produced a non-linearizable history (belongs to C01, not a liveness verdict) [{}]", i - 1, p.to_json()));
            }
            continue;
        }
        if let Some((k, h)) = hr.violation {
            let hs = h.iter().map(|e| format!("t{}[{}..{}]{:?}", e.thread, e.call, e.ret, e.op)).collect::<Vec<_>>().join(" | ");
            out.violate(
                format!("{prop}/serial/not-linearizable"),
                format!("no sequential order explains the calls on key {k} (initial {:?}): {hs} [schedule {} of shard {}, {}]", init(k), i - 1, ctx.shard, p.to_json()),
                replay(&r.res),
            );
            break;
        }
        // determinism spot check: replaying the recorded decisions gives the same trace
        if i % 500 == 1 {
            let r2 = execute(&p, sched_seed, Some(r.res.decisions.clone()));
            if r2.res.trace_hash != r.res.trace_hash || r2.res.steps != r.res.steps || r2.res.replay_diverged {
                out.add("replay_mismatches", 1);
            } else {
                out.add("replays_identical", 1);
            }
        }
    }
    out
}
