//! C06 — crowded bins are balanced search trees: red-black + list/tree agreement audit after
//! every operation and an exact bound on key comparisons per lookup.
use super::Ctx;
use crate::api::*;
use crate::hashers::*;
use crate::hook;
use crate::outcome::Outcome;
use crate::seq::*;
use crate::types::*;
use crate::util::*;
use std::collections::BTreeMap;

fn order(n: u64, kind: u8, rng: &mut Rng) -> Vec<u64> {
    let mut v: Vec<u64> = (0..n).collect();
    match kind {
        0 => {}
        1 => v.reverse(),
        2 => {
            // zig-zag: 0, n-1, 1, n-2, ...
            let mut z = Vec::new();
            let (mut a, mut b) = (0i64, n as i64 - 1);
            while a <= b {
                z.push(a as u64);
                if a != b {
                    z.push(b as u64);
                }
                a += 1;
                b -= 1;
            }
            v = z;
        }
        3 => {
            // middle out
            v.sort_by_key(|x| (*x as i64 - n as i64 / 2).abs());
        }
        _ => rng.shuffle(&mut v),
    }
    v
}

pub const ORDERS: [&str; 5] = ["ascending", "descending", "zigzag", "middle-out", "random"];

/// Insert n colliding keys in one order, delete in another (optionally sliding window), audit
/// the tree and the comparison bound after every operation.
fn directed(mode: u8, cap: usize, n: u64, ins: u8, del: u8, window: u64, grow: bool, rng: &mut Rng, st: &mut SeqStats) -> Result<(), SeqFailure> {
    let map = Map::with_capacity_and_hasher(cap, HB::new(mode));
    let mut model: BTreeMap<u64, (u32, u64)> = BTreeMap::new();
    let g = map.guard();
    let api = Api { map: &map, facade: 0, guard: &g };
    let keys = order(n, ins, rng);
    let mut v = 0u64;
    let mut step = 0u64;
    let audit_stride = if n > 120 { 3 } else { 1 };
    for (i, &k) in keys.iter().enumerate() {
        v += 1;
        api.insert(k, i as u32, v);
        model.insert(k, (i as u32, v));
        st.steps += 1;
        if window > 0 && i as u64 >= window {
            let old = keys[i - window as usize];
            let r = api.remove(old);
            let want = model.remove(&old).map(|x| x.1);
            if r != want {
                return Err(SeqFailure { sig: "remove-result".into(), detail: format!("remove({old}) = {:?}, model {:?}", r, want) });
            }
            st.steps += 1;
        }
        step += 1;
        if step % audit_stride == 0 {
            audit_map(&map, mode, Some(&model), true, st)?;
        }
        if grow && i as u64 == n / 2 {
            // force a resize in the middle so that trees are split / rebuilt by `transfer`
            api.reserve(map.verif_table_len(&g) * 2);
            audit_map(&map, mode, Some(&model), true, st)?;
        }
    }
    audit_map(&map, mode, Some(&model), true, st)?;
    let mut dk: Vec<u64> = model.keys().copied().collect();
    let perm = order(dk.len() as u64, del, rng);
    dk = perm.iter().map(|&i| dk[i as usize]).collect();
    for k in dk {
        // alternate removal paths
        let want = model.remove(&k).map(|x| x.1);
        let got = match k % 3 {
            0 => api.remove(k),
            1 => api.remove_entry(k).map(|e| e.v),
            _ => {
                let r = api.compute(k, |_, _| None);
                r.saw.map(|s| s.v)
            }
        };
        if got != want {
            return Err(SeqFailure { sig: "remove-result".into(), detail: format!("removal of {k} returned {:?}, model {:?}", got, want) });
        }
        st.steps += 1;
        step += 1;
        if step % audit_stride == 0 {
            audit_map(&map, mode, Some(&model), true, st)?;
        }
    }
    audit_map(&map, mode, Some(&model), true, st)?;
    Ok(())
}

pub fn run(ctx: &Ctx) -> Outcome {
    let mut out = Outcome::new(
        "directed: (hasher in {constant, samebin, mixed, splitting}) x (insertion order) x (deletion order) x (bin size 8..=max) x (sliding window | none) x (resize in the middle | none), \
         every operation followed by the red-black/list audit and the comparison bound on every present key and up to 24 absent colliding keys; \
         random: tree-heavy random sequences with the same audits; distinct = distinct tree shapes (hash of depth/colour sequence of all tree bins) seen by an audit",
    );
    hook::install();
    let mut shapes = std::collections::BTreeSet::new();
    let mut st = SeqStats::default();
    let modes = CROWDED_MODES;
    let max_n: u64 = ctx.q(140, 400);
    let mut idx = 0u64;
    let mut fail: Option<(String, SeqFailure, Json)> = None;
    'outer: for round in 0..ctx.q(6u64, 400) {
        for &mode in &modes {
            for ins in 0..5u8 {
                for del in 0..5u8 {
                    idx += 1;
                    if idx % ctx.shards != ctx.shard {
                        continue;
                    }
                    if !ctx.time_left() {
                        break 'outer;
                    }
                    let mut rng = Rng::derive(ctx.seed, 0xC06, idx);
                    let n = if rng.chance(1, 4) { rng.range(8, 20) } else { rng.range(12, max_n) };
                    let window = if rng.chance(1, 4) { rng.range(9, 40).min(n) } else { 0 };
                    let grow = rng.chance(1, 3);
                    let cap = *rng.pick(&[64usize, 64, 100, 200]);
                    ledger().reset();
                    let desc = Json::obj()
                        .with("hasher", Json::s(mode_name(mode)))
                        .with("cap", Json::u(cap))
                        .with("n", Json::u(n))
                        .with("insert_order", Json::s(ORDERS[ins as usize]))
                        .with("delete_order", Json::s(ORDERS[del as usize]))
                        .with("window", Json::u(window))
                        .with("resize_midway", Json::Bool(grow))
                        .with("round", Json::u(round));
                    let r = guarded(|| directed(mode, cap, n, ins, del, window, grow, &mut rng, &mut st));
                    out.evaluations += 1;
                    out.add("directed_runs", 1);
                    if out.samples.is_empty() {
                        out.sample(desc.clone());
                    }
                    let r = match r {
                        Ok(r) => r,
                        Err(p) => Err(SeqFailure { sig: "panic".into(), detail: p }),
                    };
                    if let Err(f) = r {
                        fail = Some(("directed".into(), f, desc));
                        break 'outer;
                    }
                }
            }
        }
    }
    // random tree-heavy sequences
    let mut i = 0u64;
    let target = ctx.q(500u64, 400_000);
    while fail.is_none() && i < target && ctx.time_left() {
        let mut rng = Rng::derive(ctx.seed ^ 0x6006, ctx.shard, i);
        i += 1;
        let cfg = SeqCfg {
            mode: *rng.pick(&modes),
            cap: *rng.pick(&[64usize, 64, 70, 128]),
            universe: rng.range(12, ctx.q(80, 260)),
            steps: rng.range(100, ctx.q(500, 2500)) as usize,
            facade: rng.below(5) as u8,
            audit_every: 1,
            growth: false,
            cmp_bound: true,
            profile: 1,
            batch: *rng.pick(&[1usize, 8, 120]),
            allow_replace_map: false,
        };
        ledger().reset();
        let r = guarded(|| run_seq(&cfg, &mut rng, &mut st));
        out.evaluations += 1;
        out.add("random_sequences", 1);
        let r = match r {
            Ok(r) => r,
            Err(p) => Err(SeqFailure { sig: "panic".into(), detail: p }),
        };
        if let Err(f) = r {
            fail = Some(("random".into(), f, cfg.to_json().with("sequence", Json::u(i - 1)).with("shard", Json::u(ctx.shard))));
        }
    }
    for s in st.shapes.drain(..) {
        shapes.insert(s);
    }
    out.distinct = shapes;
    out.add("operations", st.steps);
    out.add("audits", st.audits);
    out.add("tree_bins_audited", st.tree_bins_audited);
    out.add("lookups_counted", st.lookups_counted);
    out.add("treeify", st.treeify);
    out.add("untreeify", st.untreeify);
    out.add("tree_split", st.tree_split);
    out.max("max_cmp_over_bound", st.max_cmp_ratio);
    out.max("max_height_over_bound", st.max_height_ratio);
    out.max("max_tree_bin", st.max_tree as f64);
    out.max("max_list_bin", st.max_list as f64);
    if let Some((part, f, desc)) = fail {
        out.violate(
            format!("c06/{part}/{}", f.sig),
            format!("{} [{}]", f.detail, desc),
            Json::obj().with("check", Json::s("c06")).with("part", Json::s(part)).with("seed", Json::u(ctx.seed)).with("case", desc),
        );
    }
    out
}
