//! C11 (native part): tree-bin hammer with a blocked-state detector. Readers linger in the tree
//! read lock while writers insert / remove with rotations, so that writers go through
//! `contended_lock` (WAITER, handle publication, re-check, park) thousands of times per second
//! on real hardware. A writer that makes no progress, is asleep (thread state S) and stays so
//! over two samples while the readers keep finishing lookups is a lost wakeup.
use super::Ctx;
use crate::hashers::*;
use crate::hook;
use crate::outcome::Outcome;
use crate::util::*;
use flurry::verif as fvf;
use flurry::HashMap;
use std::sync::atomic::{AtomicBool, AtomicI64, AtomicU64, Ordering};
use std::sync::Arc;

type UMap = HashMap<u64, u64, HB>;

fn thread_state(tid: i64) -> char {
    let s = std::fs::read_to_string(format!("/proc/self/task/{tid}/stat")).unwrap_or_default();
    s.rsplit(')').next().and_then(|r| r.trim().chars().next()).unwrap_or('?')
}

struct RoundOut {
    unparks: u64,
    lock_state: Option<String>,
    writer_ops: u64,
    reader_ops: u64,
    parks: u64,
    blocked: Option<String>,
}

fn hammer_round(mode: u8, nkeys: u64, writers: usize, readers: usize, writer_ops: u64, seed: u64, pest: bool) -> RoundOut {
    let map: Arc<UMap> = Arc::new(HashMap::with_capacity_and_hasher(64, HB::new(mode)));
    {
        let g = map.guard();
        for k in 0..nkeys {
            map.insert(k, k, &g);
        }
    }
    let parks0 = hook::site_hit_count(fvf::PRE_PARK);
    let stop = Arc::new(AtomicBool::new(false));
    let progress: Arc<Vec<AtomicU64>> = Arc::new((0..writers + readers).map(|_| AtomicU64::new(0)).collect());
    let tids: Arc<Vec<AtomicI64>> = Arc::new((0..writers + readers).map(|_| AtomicI64::new(0)).collect());
    let done: Arc<Vec<AtomicBool>> = Arc::new((0..writers).map(|_| AtomicBool::new(false)).collect());
    let mut handles = Vec::new();
    // `park` may return spuriously; a pest thread makes that happen all the time by handing
    // unpark tokens to the writers (stopped before the blocked-state samples are taken)
    let writer_threads: Arc<std::sync::Mutex<Vec<std::thread::Thread>>> = Arc::new(std::sync::Mutex::new(Vec::new()));
    let pest_stop = Arc::new(AtomicBool::new(false));
    let unparks = Arc::new(AtomicU64::new(0));
    let pest_handle = if pest {
        let (wt, ps, un) = (writer_threads.clone(), pest_stop.clone(), unparks.clone());
        Some(std::thread::spawn(move || {
            while !ps.load(Ordering::Relaxed) {
                for t in wt.lock().unwrap().iter() {
                    t.unpark();
                    un.fetch_add(1, Ordering::Relaxed);
                }
                for _ in 0..2000 {
                    std::hint::spin_loop();
                }
            }
        }))
    } else {
        None
    };
    for w in 0..writers {
        let (m, p, t, d) = (map.clone(), progress.clone(), tids.clone(), done.clone());
        let wt = writer_threads.clone();
        handles.push(std::thread::spawn(move || {
            wt.lock().unwrap().push(std::thread::current());
            t[w].store(unsafe { libc::syscall(libc::SYS_gettid) } as i64, Ordering::SeqCst);
            hook::set_role(hook::ROLE_DELAY, w as u16, seed ^ w as u64);
            let mut rng = Rng::new(seed ^ (w as u64) << 20);
            for _ in 0..writer_ops {
                let g = m.guard();
                let k = rng.below(nkeys + 4);
                if rng.chance(1, 2) {
                    m.remove(&k, &g);
                } else {
                    m.insert(k, k, &g);
                }
                p[w].fetch_add(1, Ordering::Relaxed);
            }
            hook::set_role(hook::ROLE_NONE, 0, 0);
            d[w].store(true, Ordering::SeqCst);
        }));
    }
    for r in 0..readers {
        let (m, p, t, s) = (map.clone(), progress.clone(), tids.clone(), stop.clone());
        let idx = writers + r;
        handles.push(std::thread::spawn(move || {
            t[idx].store(unsafe { libc::syscall(libc::SYS_gettid) } as i64, Ordering::SeqCst);
            hook::set_role(hook::ROLE_DELAY, idx as u16, seed ^ idx as u64);
            let mut rng = Rng::new(seed ^ (idx as u64) << 24);
            while !s.load(Ordering::Relaxed) {
                let g = m.guard();
                let _ = m.get(&rng.below(nkeys + 4), &g);
                p[idx].fetch_add(1, Ordering::Relaxed);
            }
            hook::set_role(hook::ROLE_NONE, 0, 0);
        }));
    }
    let t0 = std::time::Instant::now();
    let mut blocked = None;
    loop {
        if done.iter().all(|d| d.load(Ordering::SeqCst)) {
            break;
        }
        if t0.elapsed().as_secs() >= 5 {
            pest_stop.store(true, Ordering::SeqCst);
        }
        if t0.elapsed().as_secs() >= 6 {
            // candidate: confirm by two samples one second apart
            let snap = |i: usize| (progress[i].load(Ordering::SeqCst), thread_state(tids[i].load(Ordering::SeqCst)));
            let s1: Vec<(u64, char)> = (0..writers + readers).map(snap).collect();
            std::thread::sleep(std::time::Duration::from_secs(1));
            let s2: Vec<(u64, char)> = (0..writers + readers).map(snap).collect();
            std::thread::sleep(std::time::Duration::from_secs(1));
            let s3: Vec<(u64, char)> = (0..writers + readers).map(snap).collect();
            let stuck: Vec<usize> = (0..writers)
                .filter(|&w| !done[w].load(Ordering::SeqCst) && s1[w].0 == s3[w].0 && s1[w].1 == 'S' && s2[w].1 == 'S' && s3[w].1 == 'S')
                .collect();
            // every reader completed lookups in both intervals, i.e. none of them is sitting
            // (descheduled) inside the read lock that the sleeping writer could be waiting for
            let readers_alive = readers > 0 && (writers..writers + readers).all(|i| s2[i].0 >= s1[i].0 + 3 && s3[i].0 >= s2[i].0 + 3);
            if !stuck.is_empty() && readers_alive {
                let g = map.guard();
                let d = map.verif_dump(&g);
                let st: Vec<String> = d
                    .bins
                    .iter()
                    .filter_map(|b| match b {
                        flurry::verif::BinDump::Tree { locked, lock_state, waiter_null, .. } => Some(format!("tree bin: mutex locked={locked} lock_state={lock_state} waiter_null={waiter_null}")),
                        _ => None,
                    })
                    .collect();
                blocked = Some(format!(
                    "writer thread(s) {:?} made no progress for 8 s and are asleep (state S in three samples, {} of {} calls done) while every reader keeps completing lookups: {}",
                    stuck, s3[stuck[0]].0, writer_ops, st.join("; ")
                ));
                break;
            }
            if t0.elapsed().as_secs() > 40 {
                blocked = Some("INCONCLUSIVE round did not finish within 40 s but no thread is confirmed blocked".into());
                break;
            }
        }
        std::thread::sleep(std::time::Duration::from_millis(2));
    }
    stop.store(true, Ordering::SeqCst);
    pest_stop.store(true, Ordering::SeqCst);
    if let Some(h) = pest_handle {
        let _ = h.join();
    }
    let writer_done: u64 = (0..writers).map(|w| progress[w].load(Ordering::SeqCst)).sum();
    let reader_done: u64 = (writers..writers + readers).map(|r| progress[r].load(Ordering::SeqCst)).sum();
    let mut lock_state = None;
    if blocked.is_none() {
        for h in handles {
            let _ = h.join();
        }
        // nobody is inside the map any more: every tree bin's lock must be free
        let g = map.guard();
        let d = map.verif_dump(&g);
        for b in d.bins.iter() {
            if let flurry::verif::BinDump::Tree { locked, lock_state: ls, waiter_null, .. } = b {
                if *locked || *ls != 0 || !*waiter_null {
                    lock_state = Some(format!("after every thread has left the map a tree bin has mutex locked={locked} lock_state={ls} waiter_null={waiter_null}"));
                }
            }
        }
        if lock_state.is_some() {
            drop(d);
            drop(g);
            std::mem::forget(map);
        }
    } else {
        std::mem::forget(map);
    }
    RoundOut { unparks: unparks.load(Ordering::SeqCst), lock_state, writer_ops: writer_done, reader_ops: reader_done, parks: hook::site_hit_count(fvf::PRE_PARK) - parks0, blocked }
}

pub fn run(ctx: &Ctx) -> Outcome {
    let mut out = Outcome::new(
        "native tree-bin hammer: 1-3 writers removing / inserting colliding keys (rotations need the root write lock) against 1-4 readers that keep taking the tree read lock, delays injected while the read lock is held; \
         a round is a violation only if a writer makes no progress over two samples, is asleep (state S) and readers still complete lookups; distinct = distinct (round configuration) in which writers really parked",
    );
    hook::install();
    install_panic_capture();
    hook::set_delay_level(1);
    let target = ctx.args.u64("rounds", ctx.q(60, 2000));
    let mut i = 0u64;
    while i < target && ctx.time_left() {
        let mut rng = Rng::derive(ctx.seed, 0xC11 + ctx.shard, i);
        i += 1;
        let mode = *rng.pick(&[CONSTANT, SAMEBIN, MIXED]);
        let nkeys = rng.range(9, 24);
        let writers = rng.range(1, 3) as usize;
        let readers = rng.range(1, 4) as usize;
        hook::set_focus_site(*rng.pick(&[0, fvf::WIN_TREE_READ_LOCKED, fvf::EV_WAITER_SET, 0]));
        let pest = i % 2 == 0;
        let r = hammer_round(mode, nkeys, writers, readers, ctx.q(3000, 20000), rng.next(), pest);
        out.add("hammer_foreign_unparks", r.unparks);
        if let Some(ls) = &r.lock_state {
            out.violate(
                "c11/hammer/lock-state",
                format!("{ls} [hasher {}, {nkeys} keys, {writers} writers, {readers} readers, foreign unparks {}, round {}]", mode_name(mode), pest, i - 1),
                Json::obj().with("check", Json::s("c11")).with("part", Json::s("hammer")).with("seed", Json::u(ctx.seed)).with("shard", Json::u(ctx.shard)).with("round", Json::u(i - 1)),
            );
            break;
        }
        out.evaluations += 1;
        out.add("hammer_rounds", 1);
        out.add("hammer_writer_calls", r.writer_ops);
        out.add("hammer_reader_calls", r.reader_ops);
        out.add("hammer_writer_parks", r.parks);
        if r.parks > 0 {
            out.distinct.insert(fnv(fnv(fnv(fnv(FNV_OFFSET ^ 0x11, mode as u64), nkeys), writers as u64), readers as u64) ^ r.parks);
        }
        if out.samples.is_empty() && r.parks > 0 {
            out.sample(Json::obj().with("hasher", Json::s(mode_name(mode))).with("keys", Json::u(nkeys)).with("writers", Json::u(writers)).with("readers", Json::u(readers)).with("writer_parks", Json::u(r.parks)).with("writer_calls", Json::u(r.writer_ops)));
        }
        if let Some(b) = r.blocked {
            if b.starts_with("INCONCLUSIVE") {
                out.inconclusive.push(b);
            } else {
                out.violate(
                    "c11/hammer/blocked",
                    format!("{b} [hasher {}, {nkeys} keys, {writers} writers, {readers} readers, round {}]", mode_name(mode), i - 1),
                    Json::obj().with("check", Json::s("c11")).with("part", Json::s("hammer")).with("seed", Json::u(ctx.seed)).with("shard", Json::u(ctx.shard)).with("round", Json::u(i - 1)),
                );
            }
            break;
        }
    }
    hook::set_focus_site(0);
    out
}
