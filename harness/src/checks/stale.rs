//! Stale callers across several resizes (a part of C01).
//!
//! Readers and writers are frozen right after they loaded the table pointer (their second
//! atomic load is the bin), a growing thread then takes the map through one to three resizes
//! and is itself frozen after a chosen number of forwarded bins, i.e. possibly in the middle of
//! the second or third transfer. The stale callers are then released one at a time, in a drawn
//! order, while the grower stays frozen: each starts from a table that is two or three
//! generations old and has to follow the forwarding markers. Oracle: a key that was present
//! before the call began and is never removed is found with its value, a key that was never
//! inserted is not found, stale inserts and removes of private keys take effect exactly once,
//! and at quiescence the map holds exactly the model and passes the structural audit.
use super::Ctx;
use crate::hashers::*;
use crate::hook;
use crate::orch::Actor;
use crate::outcome::Outcome;
use crate::util::*;
use flurry::verif as fvf;
use flurry::HashMap;
use std::collections::BTreeMap;
use std::sync::{Arc, Mutex};

type UMap = HashMap<u64, u64, HB>;

#[derive(Clone, Copy, Debug)]
enum Kind {
    Get,
    Contains,
    GetKeyValue,
    PinnedGet,
    Insert,
    Remove,
    ComputeIfPresent,
}

#[derive(Clone, Debug)]
struct StaleOp {
    kind: Kind,
    key: u64,
    /// n-th atomic load at which the caller is frozen (2 = after the table pointer was loaded)
    at_load: u64,
}

#[derive(Default)]
pub struct Stats {
    pub stale_calls: u64,
    pub frozen_mid_transfer: u64,
    pub generations_behind_max: u64,
    pub hops: u64,
}

const VAL: u64 = 1000;

fn scenario(rng: &mut Rng, stats: &mut Stats) -> Result<(u64, String), String> {
    let mode = *rng.pick(&[IDENTITY, UNIFORM, IDENTITY, SPLITTING, MIXED, HIGHBITS]);
    let map: Arc<UMap> = Arc::new(HashMap::with_hasher(HB::new(mode)));
    let nprefill = rng.range(3, 11);
    let mut model: BTreeMap<u64, u64> = BTreeMap::new();
    {
        let g = map.guard();
        for k in 0..nprefill {
            map.insert(k, VAL + k, &g);
            model.insert(k, VAL + k);
        }
    }
    let t0_len = map.verif_table_len(&map.guard());
    // stale callers: reads of prefilled or never-present keys; writes on private keys
    let nstale = rng.range(2, 6) as usize;
    let mut ops = Vec::new();
    // keys the stale removers own (present, never read by the stale readers)
    let removable: Vec<u64> = (0..nprefill).filter(|k| k % 4 == 3).collect();
    let readable: Vec<u64> = (0..nprefill).filter(|k| k % 4 != 3).collect();
    let mut used_remove = 0usize;
    for i in 0..nstale {
        let kind = match rng.below(12) {
            0..=3 => Kind::Get,
            4 => Kind::Contains,
            5 => Kind::GetKeyValue,
            6 => Kind::PinnedGet,
            7 | 8 => Kind::Insert,
            9 => Kind::ComputeIfPresent,
            _ => Kind::Remove,
        };
        let (kind, key) = match kind {
            Kind::Insert => (kind, 5000 + i as u64),
            Kind::Remove | Kind::ComputeIfPresent if used_remove < removable.len() => {
                used_remove += 1;
                (kind, removable[used_remove - 1])
            }
            Kind::Remove | Kind::ComputeIfPresent => (Kind::Get, *rng.pick(&readable)),
            _ => (kind, if rng.chance(1, 6) { 9000 + rng.below(50) } else { *rng.pick(&readable) }),
        };
        // a read may also be frozen one load later (after the bin was read); a writer's third load
        // is inside its bin's critical section, and a tree-bin reader's inside the read lock, where a
        // frozen thread would (legitimately) hold up the grower
        let is_read = matches!(kind, Kind::Get | Kind::Contains | Kind::GetKeyValue | Kind::PinnedGet);
        let later = is_read && matches!(mode, IDENTITY | UNIFORM) && rng.chance(1, 5);
        ops.push(StaleOp { kind, key, at_load: if later { 3 } else { 2 } });
    }
    let results: Arc<Mutex<Vec<Option<Option<u64>>>>> = Arc::new(Mutex::new(vec![None; nstale]));
    let mut actors = Vec::new();
    for (i, op) in ops.iter().enumerate() {
        let (m, op2, res) = (map.clone(), op.clone(), results.clone());
        let a = Actor::spawn(&format!("stale-{i}"), 10 + i as u16, |g| g.arm_site(fvf::ATOMIC_LOAD, op.at_load), move || {
            let r = match op2.kind {
                Kind::Get => {
                    let g = m.guard();
                    m.get(&op2.key, &g).copied()
                }
                Kind::Contains => {
                    let g = m.guard();
                    if m.contains_key(&op2.key, &g) {
                        Some(u64::MAX)
                    } else {
                        None
                    }
                }
                Kind::GetKeyValue => {
                    let g = m.guard();
                    m.get_key_value(&op2.key, &g).map(|(k, v)| {
                        assert_eq!(*k, op2.key);
                        *v
                    })
                }
                Kind::PinnedGet => m.pin().get(&op2.key).copied(),
                Kind::Insert => {
                    let g = m.guard();
                    m.insert(op2.key, VAL + op2.key, &g).copied()
                }
                Kind::Remove => {
                    let g = m.guard();
                    m.remove(&op2.key, &g).copied()
                }
                Kind::ComputeIfPresent => {
                    let g = m.guard();
                    m.compute_if_present(&op2.key, |_, v| Some(*v + 1), &g).copied()
                }
            };
            res.lock().unwrap()[i] = Some(r);
        });
        match a.wait_frozen_or_done(20_000) {
            Ok(true) => {}
            // an empty bin: the call had no third load and simply completed before the resizes
            Ok(false) => {}
            Err(e) => return Err(format!("INCONCLUSIVE {e}")),
        }
        actors.push(a);
    }
    // the grower: up to three resizes, frozen after `nth` forwarded bins
    let total_bins = t0_len as u64 * 7; // n + 2n + 4n
    let nth = rng.range(1, total_bins + 4);
    let ngrow = t0_len as u64 * 4;
    let m = map.clone();
    let grower = Actor::spawn("grower", 1, |g| g.arm_site(fvf::EV_BIN_FORWARDED, nth), move || {
        let g = m.guard();
        for k in 0..ngrow {
            m.insert(100_000 + k, VAL + 100_000 + k, &g);
        }
    });
    for k in 0..ngrow {
        model.insert(100_000 + k, VAL + 100_000 + k);
    }
    let grower_frozen = match grower.wait_frozen_or_done(30_000) {
        Ok(b) => b,
        Err(e) => return Err(format!("INCONCLUSIVE {e}")),
    };
    let len_now = map.verif_table_len(&map.guard());
    let behind = (len_now / t0_len.max(1)).trailing_zeros() as u64;
    stats.generations_behind_max = stats.generations_behind_max.max(behind);
    if grower_frozen {
        stats.frozen_mid_transfer += 1;
    }
    let desc = format!(
        "hasher {}, {nprefill} prefilled keys in a {t0_len}-bin table, stale calls {:?}, grower frozen after {nth} forwarded bins ({}; current table {len_now} bins)",
        mode_name(mode),
        ops,
        if grower_frozen { "inside a transfer" } else { "it finished first" }
    );
    // release the stale callers one at a time, in a drawn order; reads must return while the
    // grower is frozen, writes may have to wait for the bin lock the grower holds
    let mut order: Vec<usize> = (0..nstale).collect();
    rng.shuffle(&mut order);
    let mut pending_writers = Vec::new();
    for &i in &order {
        actors[i].gate.release();
        let is_read = matches!(ops[i].kind, Kind::Get | Kind::Contains | Kind::GetKeyValue | Kind::PinnedGet);
        if is_read {
            if let Err(e) = actors[i].wait_done(30_000) {
                return Err(format!("INCONCLUSIVE {e} [{desc}]"));
            }
        } else {
            // give it a moment so that the order of the releases is (mostly) the order of the calls
            let t = std::time::Instant::now();
            while !actors[i].is_done() && t.elapsed().as_micros() < 300 {
                std::thread::yield_now();
            }
            pending_writers.push(i);
        }
        stats.stale_calls += 1;
    }
    grower.gate.release();
    if let Err(e) = grower.wait_done(30_000) {
        return Err(format!("INCONCLUSIVE {e} [{desc}]"));
    }
    for &i in &pending_writers {
        if let Err(e) = actors[i].wait_done(30_000) {
            return Err(format!("INCONCLUSIVE {e} [{desc}]"));
        }
    }
    for a in actors {
        a.join().map_err(|e| format!("a stale call panicked: {e} [{desc}]"))?;
    }
    grower.join().map_err(|e| format!("the growing thread panicked: {e} [{desc}]"))?;
    // judge
    let res = results.lock().unwrap().clone();
    for (i, op) in ops.iter().enumerate() {
        let got = res[i].ok_or_else(|| format!("stale call {i} left no result [{desc}]"))?;
        let present = op.key < nprefill;
        let want: Option<u64> = match op.kind {
            Kind::Get | Kind::GetKeyValue | Kind::PinnedGet => present.then_some(VAL + op.key),
            Kind::Contains => present.then_some(u64::MAX),
            Kind::Insert => {
                model.insert(op.key, VAL + op.key);
                None
            }
            Kind::Remove => {
                model.remove(&op.key);
                Some(VAL + op.key)
            }
            Kind::ComputeIfPresent => {
                model.insert(op.key, VAL + op.key + 1);
                Some(VAL + op.key + 1)
            }
        };
        if got != want {
            return Err(format!(
                "stale call {i} {:?}({}) returned {:?}, but the key {} and no other call touches it, so it must return {:?} [{desc}]",
                op.kind,
                op.key,
                got,
                if present { "was inserted before the call began" } else { "was never inserted" },
                want
            ));
        }
    }
    let g = map.guard();
    let got: BTreeMap<u64, u64> = map.iter(&g).map(|(k, v)| (*k, *v)).collect();
    if got != model {
        let missing: Vec<_> = model.keys().filter(|k| !got.contains_key(k)).take(6).collect();
        let extra: Vec<_> = got.keys().filter(|k| !model.contains_key(k)).take(6).collect();
        let wrong: Vec<_> = model.iter().filter(|(k, v)| got.get(k).is_some_and(|x| x != *v)).take(6).collect();
        return Err(format!("after all calls returned the map differs from the model: missing {missing:?}, unexpected {extra:?}, wrong value {wrong:?} [{desc}]"));
    }
    for (k, v) in &model {
        if map.get(k, &g) != Some(v) {
            return Err(format!("get({k}) at quiescence returned {:?}, expected {v} [{desc}]", map.get(k, &g)));
        }
    }
    let d = map.verif_dump(&g);
    let hf = |k: &u64| hash_of(mode, *k);
    let (a, _) = crate::inspect::audit(&d, Some(&hf), map.len(), map.is_empty());
    if !a.ok() {
        return Err(format!("structural audit at quiescence: {} [{desc}]", a.failures.join("; ")));
    }
    let sig = fnv(fnv(fnv(fnv(FNV_OFFSET ^ 0x57A1E, mode as u64), nth), nstale as u64), ops.iter().fold(0u64, |h, o| fnv(h, o.key * 16 + o.kind as u64 * 2 + o.at_load)));
    Ok((sig, desc))
}

pub fn run(ctx: &Ctx) -> Outcome {
    let mut out = Outcome::new(
        "stale callers: 2-6 calls (get / contains_key / get_key_value / pinned get / insert / remove / compute_if_present) frozen right after loading the table pointer, then 1-3 complete or partial resizes by a growing thread that is frozen after a drawn number of forwarded bins, \
         then the stale calls released one at a time in a drawn order; oracle: exact results for untouched keys, final contents == model, structural audit; distinct = distinct (hasher, freeze point, calls)",
    );
    hook::install();
    install_panic_capture();
    let first = ctx.args.u64("first-scenario", 0);
    let n = first + ctx.args.u64("scenarios", ctx.q(400, 200_000));
    let mut stats = Stats::default();
    for i in first..n {
        if i % ctx.shards != ctx.shard {
            continue;
        }
        if !ctx.time_left() {
            break;
        }
        let mut rng = Rng::derive(ctx.seed, 0x57A1E, i);
        let r = guarded(|| scenario(&mut rng, &mut stats));
        out.evaluations += 1;
        out.add("stale_scenarios", 1);
        let r = match r {
            Ok(r) => r,
            Err(p) => Err(format!("panicked: {p}")),
        };
        match r {
            Ok((sig, desc)) => {
                out.distinct.insert(sig);
                if out.samples.is_empty() {
                    out.sample(Json::s(&desc));
                }
            }
            Err(e) if e.starts_with("INCONCLUSIVE") => out.inconclusive.push(e),
            Err(e) => {
                out.violate(
                    "c01/stale",
                    e,
                    Json::obj().with("check", Json::s("c01")).with("part", Json::s("stale")).with("seed", Json::u(ctx.seed)).with("scenario", Json::u(i)),
                );
                break;
            }
        }
    }
    out.add("stale_calls_released", stats.stale_calls);
    out.add("stale_scenarios_grower_frozen_mid_transfer", stats.frozen_mid_transfer);
    out.max("stale_max_table_generations_behind", stats.generations_behind_max as f64);
    out
}
