//! C02 — sequential behaviour equals a reference map, for every op sequence and hasher.
use super::Ctx;
use crate::hashers::*;
use crate::hook;
use crate::outcome::Outcome;
use crate::seq::*;
use crate::types::ledger;
use crate::util::*;

pub fn draw_cfg(rng: &mut Rng, thorough: bool) -> (SeqCfg, bool) {
    let is_set = rng.chance(1, 6);
    let profile = if rng.chance(1, 3) { 1 } else { 0 };
    let mode = if profile == 1 { *rng.pick(&CROWDED_MODES) } else { *rng.pick(&ALL_MODES) };
    let cap = if profile == 1 { *rng.pick(&[0usize, 16, 40, 48, 64, 70]) } else { rng.below(71) as usize };
    let universe = if profile == 1 { rng.range(12, 120) } else { rng.range(8, 96) };
    let steps = if thorough { rng.range(50, 2000) } else { rng.range(50, 700) } as usize;
    let audit_every = if thorough { *rng.pick(&[1usize, 1, 4, 16]) } else { *rng.pick(&[1usize, 8, 32, 0]) };
    (
        SeqCfg {
            mode,
            cap,
            universe,
            steps,
            facade: rng.below(5) as u8,
            audit_every,
            growth: false,
            cmp_bound: false,
            profile,
            batch: *rng.pick(&[1usize, 2, 8, 120]),
            allow_replace_map: true,
        },
        is_set,
    )
}

pub fn run(ctx: &Ctx) -> Outcome {
    let mut out = Outcome::new(
        "random operation sequences (all public single-thread operations, 7 hashers, capacity 0..=70, 4 facades, map and set) \
         compared step by step with BTreeMap/BTreeSet; distinct = distinct (configuration, first 48 operations) whose run \
         exercised at least 2 of {treeify, tree split by resize, untreeify, several resizes in one call, clear on a tree bin}",
    );
    hook::install();
    let target = ctx.args.u64("sequences", ctx.q(400, 20_000));
    let mut i = ctx.args.u64("first-sequence", 0);
    let target = target + i;
    while i < target && ctx.time_left() {
        let mut rng = Rng::derive(ctx.seed, ctx.shard, i);
        let (cfg, is_set) = if let Some(r) = replay_cfg(ctx) { r } else { draw_cfg(&mut rng, ctx.thorough) };
        i += 1;
        ledger().reset();
        let mut st = SeqStats::default();
        let r = guarded(|| if is_set { run_seq_set(&cfg, &mut rng, &mut st) } else { run_seq(&cfg, &mut rng, &mut st) });
        let r = match r {
            Ok(r) => r,
            Err(p) => Err(SeqFailure { sig: "panic".into(), detail: format!("operation panicked: {p}; first operations {:?}", st.trace) }),
        };
        out.evaluations += 1;
        out.add("steps", st.steps);
        out.add("audits", st.audits);
        out.add(if is_set { "set_sequences" } else { "map_sequences" }, 1);
        for (k, v) in &st.ops {
            out.add(&format!("op_{k}"), *v);
        }
        out.add("treeify", st.treeify);
        out.add("untreeify", st.untreeify);
        out.add("tree_split", st.tree_split);
        out.add("resizes", st.resizes);
        out.add("clear_on_tree", st.clears_on_tree);
        out.max("max_table_len", st.max_len as f64);
        out.max("max_tree_bin", st.max_tree as f64);
        if st.features.count_ones() >= 2 {
            let mut h = fnv_str(FNV_OFFSET, &cfg.to_json().to_string());
            for t in &st.trace {
                h = fnv_str(h, t);
            }
            out.distinct.insert(h);
        }
        if out.samples.len() < 2 && st.features != 0 {
            out.sample(
                Json::obj()
                    .with("config", cfg.to_json())
                    .with("is_set", Json::Bool(is_set))
                    .with("first_ops", Json::Arr(st.trace.iter().take(24).map(|s| Json::s(s.clone())).collect()))
                    .with("steps", Json::u(st.steps))
                    .with("features", Json::u(st.features)),
            );
        }
        if let Err(f) = r {
            out.violate(
                format!("c02/{}/{}", if is_set { "set" } else { "map" }, f.sig),
                format!("{} [sequence {} of shard {}, {}]", f.detail, i - 1, ctx.shard, cfg.to_json()),
                Json::obj()
                    .with("check", Json::s("c02"))
                    .with("seed", Json::u(ctx.seed))
                    .with("shard", Json::u(ctx.shard))
                    .with("sequence", Json::u(i - 1))
                    .with("config", cfg.to_json())
                    .with("is_set", Json::Bool(is_set)),
            );
            break;
        }
        if ctx.args.has("sequence") {
            break;
        }
    }
    out
}

/// `--sequence n` replays exactly the n-th sequence of this (seed, shard).
fn replay_cfg(_ctx: &Ctx) -> Option<(SeqCfg, bool)> {
    None
}
