//! C04 — every key and value is destroyed exactly once, at map teardown at the latest.
use super::Ctx;
use crate::api::*;
use crate::freerun::*;
use crate::hashers::*;
use crate::hook;
use crate::outcome::Outcome;
use crate::types::*;
use crate::util::*;
use flurry::verif as fvf;

fn ledger_verdict(l: &LedgerReport) -> Option<String> {
    if !l.errors.is_empty() {
        return Some(l.errors.join("; "));
    }
    if l.live != 0 {
        return Some(format!("{} key/value instances were never destroyed although the map and its collector are gone (ids {:?}; {} keys and {} values were created)", l.live, l.live_ids, l.created_keys, l.created_vals));
    }
    None
}

/// Directed single-thread paths, each followed by a teardown audit.
fn directed(path: u32, out: &mut Outcome) -> Result<(), String> {
    ledger().reset();
    let _ = corrupt_take();
    let name;
    {
        let (mode, cap) = match path {
            0..=3 => (UNIFORM, 0usize),
            4..=9 => (CONSTANT, 64),
            12 | 13 => (ALLHIGH, 64),
            14 => (MODGROUPS, 64),
            _ => (SPLITTING, 64),
        };
        let map = Map::with_capacity_and_hasher(cap, HB::new(mode)).with_collector(seize::Collector::new().batch_size(if path % 2 == 0 { 1 } else { 120 }));
        let g = map.guard();
        let api = Api { map: &map, facade: (path % 4) as u8, guard: &g };
        let mut v = 0u64;
        let mut ins = |k: u64| {
            v += 1;
            api.insert(k, 0, v)
        };
        match path {
            0 => {
                name = "try_insert refused on the head of a list bin (lock-free fast path) and on a later node (locked path)";
                ins(1);
                ins(17);
                ins(33);
                for k in [1u64, 17, 33] {
                    match api.try_insert(k, 9, 777) {
                        Err((_, true)) => {}
                        r => return Err(format!("try_insert({k}) on a present key: {:?} (value must come back intact)", r)),
                    }
                }
            }
            1 => {
                name = "replace in list bins, remove head / middle / tail";
                for k in 0..40 {
                    ins(k);
                }
                for k in 0..40 {
                    ins(k);
                }
                for k in (0..40).step_by(3) {
                    api.remove(k);
                }
                for k in (1..40).step_by(3) {
                    api.remove_entry(k);
                }
            }
            2 => {
                name = "growth through five generations (list splits with and without reusable tail), then clear";
                for k in 0..300 {
                    ins(k * 7);
                }
                api.clear();
                for k in 0..20 {
                    ins(k);
                }
            }
            3 => {
                name = "retain / retain_force / compute->None on list bins";
                for k in 0..60 {
                    ins(k);
                }
                api.retain(|k, _| k % 3 != 0);
                api.retain_force(|k, _| k % 3 != 1);
                for k in 0..60 {
                    api.compute(k, |_, v| if v % 2 == 0 { None } else { Some(v + 1) });
                }
            }
            4 => {
                name = "treeify, replace and try_insert refusal inside a tree bin, drop of a map holding a tree bin";
                for k in 0..20 {
                    ins(k);
                }
                for k in 0..20 {
                    ins(k);
                }
                for k in 0..20 {
                    if !matches!(api.try_insert(k, 9, 5), Err((_, true))) {
                        return Err(format!("try_insert({k}) in a tree bin did not hand its value back intact"));
                    }
                }
            }
            5 => {
                name = "tree removals with rebalancing down to untreeify (remove)";
                for k in 0..30 {
                    ins(k);
                }
                for k in 0..29 {
                    api.remove(k);
                }
            }
            6 => {
                name = "tree removals down to untreeify (compute->None), shared values";
                for k in 0..30 {
                    ins(k);
                }
                for k in (0..30).rev() {
                    api.compute(k, |_, _| None);
                }
            }
            7 => {
                name = "clear on a tree bin";
                for k in 0..25 {
                    ins(k);
                }
                api.clear();
                for k in 0..12 {
                    ins(k);
                }
            }
            8 => {
                name = "retain_force on a tree bin until it empties";
                for k in 0..25 {
                    ins(k);
                }
                api.retain_force(|k, _| k % 2 == 0);
                api.retain(|_, _| false);
            }
            9 => {
                name = "clone of a map with a tree bin, both dropped";
                for k in 0..25 {
                    ins(k);
                }
                let c = map.clone();
                let cg = c.guard();
                c.remove(&KQ(3), &cg);
            }
            10 => {
                name = "tree bin split by a resize into two trees / tree + list / two lists / reused bin";
                for k in 0..64 {
                    ins(k);
                }
                api.reserve(200);
                api.reserve(600);
                for k in 0..64 {
                    api.remove(k);
                }
            }
            12 => {
                name = "tree bin moving unsplit to the high half (twice), then on";
                for k in 0..12 {
                    ins(k);
                }
                api.reserve(60);
                for k in 0..12 {
                    ins(k);
                }
                api.reserve(150);
                api.remove(3);
            }
            13 => {
                name = "list bin moving unsplit to the high half, treeified there, moved on";
                for k in 0..5 {
                    ins(k);
                }
                api.reserve(60);
                for k in 5..14 {
                    ins(k);
                }
                api.reserve(300);
            }
            14 => {
                name = "tree bin of five groups of equal hashes: replace, remove every other key, grow";
                for k in 0..30 {
                    ins(k);
                }
                for k in 0..30 {
                    ins(k);
                }
                for k in (0..30).step_by(2) {
                    api.remove(k);
                }
                api.reserve(200);
            }
            _ => {
                name = "tree split followed by compute and replacement in the new bins, drop right after a multi-step resize";
                for k in 0..40 {
                    ins(k);
                }
                api.reserve(1000);
                for k in 0..40 {
                    api.compute(k, |_, v| Some(v + 1));
                }
            }
        }
        drop(g);
        out.list("directed_paths", name);
        ledger().set_phase(1);
        drop(map);
    }
    let l = ledger().report();
    out.add("instances_created", l.created_keys + l.created_vals);
    out.add("drops_before_teardown", l.drops_run);
    out.add("drops_at_teardown", l.drops_teardown);
    if let Some(e) = ledger_verdict(&l) {
        return Err(format!("path '{name}': {e}"));
    }
    let c = corrupt_take();
    if !c.is_empty() {
        return Err(format!("path '{name}': {}", c.join("; ")));
    }
    Ok(())
}

pub fn run(ctx: &Ctx) -> Outcome {
    let mut out = Outcome::new(
        "every TKey/TVal instance (including the clones the map makes) is registered in a ledger; directed single-thread paths (refused try_insert, replace, remove, clear, retain, treeify, untreeify, tree split, clone) \
         and free-run rounds (collector batch 1/2/8/120, all facades) end with dropping the map and its collector, after which every id must have been dropped exactly once, none while a lease was held; \
         distinct = distinct interleaving signatures of rounds in which instances were destroyed before teardown + directed paths",
    );
    hook::install();
    install_panic_capture();
    if ctx.shard == 0 {
        for p in 0..15u32 {
            out.evaluations += 1;
            out.add("directed_paths_run", 1);
            out.distinct.insert(fnv(FNV_OFFSET ^ 0x04, p as u64));
            match guarded(|| directed(p, &mut Outcome::default())) {
                Ok(Ok(())) => {
                    let mut tmp = Outcome::default();
                    let _ = directed(p, &mut tmp);
                    for (k, v) in tmp.counters {
                        out.add(&k, v);
                    }
                    for (k, v) in tmp.lists {
                        for x in v {
                            out.list(&k, x);
                        }
                    }
                }
                Ok(Err(e)) | Err(e) => {
                    out.violate(format!("c04/directed/{p}"), e, Json::obj().with("check", Json::s("c04")).with("path", Json::u(p)));
                    return out;
                }
            }
        }
    }
    let target = ctx.args.u64("rounds", ctx.q(250, 6000));
    let mut round = ctx.args.u64("first-round", 0);
    let target = target + round;
    while round < target && ctx.time_left() {
        let rs = splitmix(ctx.seed ^ splitmix(ctx.shard.wrapping_mul(0xC04) ^ round) ^ 0x44);
        let mut rng = Rng::new(rs);
        let mut cfg = super::c01::draw(&mut rng, ctx.thorough);
        if rng.chance(1, 3) {
            cfg.holder_threads = 1;
            cfg.stable = 4;
        }
        if !cfg.set_facade && rng.chance(1, 3) {
            cfg.mix.retain = 1;
            cfg.mix.retain_force = 1;
            cfg.mix.clear = if cfg.stable == 0 { 1 } else { 0 };
        }
        let r = run_round(&cfg, rs);
        round += 1;
        out.evaluations += 1;
        out.add("freerun_rounds", 1);
        let l = &r.ledger;
        out.add("instances_created", l.created_keys + l.created_vals);
        out.add("key_instances_created", l.created_keys);
        out.add("value_instances_created", l.created_vals);
        out.add("drops_before_teardown", l.drops_run);
        out.add("drops_at_teardown", l.drops_teardown);
        out.add("instances_untracked_overflow", l.untracked);
        let ev = |s: u32| r.events.iter().filter(|e| e.site == s).count() as u64;
        out.add("path_list_split", ev(fvf::EV_LIST_SPLIT));
        out.add("path_tree_split", ev(fvf::EV_TREE_SPLIT));
        out.add("path_treeify", ev(fvf::EV_TREEIFIED));
        out.add("path_untreeify", ev(fvf::EV_UNTREEIFIED));
        let refused = r.history.iter().filter(|e| matches!(e.op, crate::wgl::Op::TryInsert { ok: false, .. })).count() as u64;
        out.add("path_try_insert_refused", refused);
        if l.drops_run > 0 {
            out.distinct.insert(r.signature);
        }
        if out.samples.is_empty() && l.drops_run > 0 {
            out.sample(Json::obj().with("config", cfg.to_json()).with("keys_created", Json::u(l.created_keys)).with("values_created", Json::u(l.created_vals)).with("dropped_during_round", Json::u(l.drops_run)).with("dropped_at_teardown", Json::u(l.drops_teardown)));
        }
        let mut problem = None;
        if !r.panics.is_empty() {
            problem = Some(format!("panic: {}", r.panics.join("; ")));
        } else if let Some(e) = ledger_verdict(l) {
            problem = Some(e);
        } else if r.history.iter().any(|e| matches!(e.op, crate::wgl::Op::TryInsert { ok: false, cur: Some(c), .. } if c == u64::MAX - 1)) {
            problem = Some("a refused try_insert handed back a value that is not the one passed in".into());
        }
        if let Some(p) = problem {
            out.violate(
                "c04/freerun",
                format!("{p} [round {} of shard {} {}]", round - 1, ctx.shard, cfg.to_json()),
                Json::obj().with("check", Json::s("c04")).with("engine", Json::s("freerun")).with("seed", Json::u(ctx.seed)).with("shard", Json::u(ctx.shard)).with("round", Json::u(round - 1)).with("config", cfg.to_json()),
            );
            break;
        }
    }
    out
}
