//! Lock convoys (a part of C01).
//!
//! A holder thread is frozen inside the closure of `compute_if_present`, i.e. while it owns the
//! lock of one bin. Two to four other calls that need the same bin are then started one after
//! the other, each one only after the previous one is seen blocked on the lock: inserts of keys
//! that belong to the same bin now but to its sibling after the next resize, removals and
//! computes of other keys of the bin, and `reserve` calls whose transfer has to move the bin.
//! Then the holder is released and the queue drains in (roughly) that order, so every waiter
//! meets a bin that the one before it has just changed, split, forwarded or converted. All
//! calls touch different keys, so the final contents are the same for every order: the model.
//! Oracle: return values, final contents == model through get / iteration / len, structural audit
//! (an entry in a bin it does not hash to is reported there).
use super::Ctx;
use crate::hashers::*;
use crate::hook;
use crate::orch::Actor;
use crate::outcome::Outcome;
use crate::util::*;
use flurry::verif as fvf;
use flurry::HashMap;
use std::collections::BTreeMap;
use std::sync::{Arc, Mutex};

type UMap = HashMap<u64, u64, HB>;

#[derive(Clone, Copy, Debug, PartialEq)]
enum W {
    Insert(u64),
    TryInsert(u64),
    Remove(u64),
    ComputeSome(u64),
    ComputeNone(u64),
    Reserve(usize),
    Get(u64),
}

/// (name, hasher, capacity, prefilled keys, holder key, fresh keys that may be inserted)
fn setups() -> Vec<(&'static str, u8, usize, Vec<u64>, u64, Vec<u64>)> {
    let evens = |n: u64| (0..n).map(|i| 2 * i).collect::<Vec<u64>>();
    let odds = |n: u64| (0..n).map(|i| 2 * i + 1).collect::<Vec<u64>>();
    vec![
        // tree bin whose keys all stay in the low half at 64 -> 128; the fresh keys go to the sibling
        ("tree bin that moves unsplit (low), fresh keys for the sibling bin", TWOVAL6, 40, evens(12), 4, odds(6)),
        ("tree bin that moves unsplit (high), fresh keys for the low bin", TWOVAL6, 40, odds(12), 5, evens(6)),
        ("tree bin that splits in two", TWOVAL6, 40, (0..16).collect(), 6, (16..24).collect()),
        ("tree bin of a 128-bin table (two hash values)", TWOVAL7, 80, evens(12), 2, odds(6)),
        ("tree bin of equal hashes", CONSTANT, 40, (0..12).collect(), 3, (12..20).collect()),
        ("tree bin splitting in four", SPLITTING, 40, (0..20).collect(), 8, (20..28).collect()),
        ("list bin of a 16-bin table", IDENTITY, 0, vec![1, 17, 33, 49, 2, 3, 4, 5, 6, 7, 8], 17, vec![65, 81, 97, 113, 129]),
        ("list bin whose head is the holder's key", IDENTITY, 0, vec![1, 17, 33, 2, 3, 4, 5, 6, 7, 8, 9], 1, vec![49, 65, 81, 97]),
        ("short tree bin at the untreeify threshold", CONSTANT, 40, (0..8).collect(), 7, (8..12).collect()),
    ]
}

fn scenario(rng: &mut Rng, si: usize) -> Result<(u64, String, u64), String> {
    let all = setups();
    let (name, mode, cap, prefill, hkey, fresh) = all[si % all.len()].clone();
    let map: Arc<UMap> = Arc::new(if cap == 0 { HashMap::with_hasher(HB::new(mode)) } else { HashMap::with_capacity_and_hasher(cap, HB::new(mode)) });
    let mut model: BTreeMap<u64, u64> = BTreeMap::new();
    {
        let g = map.guard();
        for &k in &prefill {
            map.insert(k, 1000 + k, &g);
            model.insert(k, 1000 + k);
        }
    }
    let holder_removes = rng.chance(1, 3);
    // the waiters: distinct keys, never the holder's key
    let mut existing: Vec<u64> = prefill.iter().copied().filter(|k| *k != hkey).collect();
    rng.shuffle(&mut existing);
    let mut fresh = fresh;
    rng.shuffle(&mut fresh);
    let nwait = rng.range(2, 4) as usize;
    let mut waiters: Vec<W> = Vec::new();
    let mut have_reserve = false;
    for _ in 0..nwait {
        let w = match rng.below(9) {
            0 | 1 if !fresh.is_empty() => W::Insert(fresh.pop().unwrap()),
            2 if !fresh.is_empty() => W::TryInsert(fresh.pop().unwrap()),
            3 if !existing.is_empty() => W::Remove(existing.pop().unwrap()),
            4 if !existing.is_empty() => W::ComputeSome(existing.pop().unwrap()),
            5 if !existing.is_empty() => W::ComputeNone(existing.pop().unwrap()),
            6 if !existing.is_empty() => W::Get(existing.pop().unwrap()),
            _ => {
                have_reserve = true;
                W::Reserve(*rng.pick(&[100usize, 150, 400]))
            }
        };
        waiters.push(w);
    }
    if !have_reserve && rng.chance(2, 3) {
        let at = rng.below(waiters.len() as u64 + 1) as usize;
        waiters.insert(at, W::Reserve(*rng.pick(&[100usize, 400])));
    }
    let desc = format!(
        "{name} (hasher {}, {} prefilled keys), holder compute_if_present({hkey}) -> {}, queue {:?}",
        mode_name(mode),
        prefill.len(),
        if holder_removes { "None" } else { "Some" },
        waiters
    );
    // the holder, frozen inside its closure (it owns the bin lock there)
    let m = map.clone();
    let hres: Arc<Mutex<Option<Option<u64>>>> = Arc::new(Mutex::new(None));
    let hr = hres.clone();
    let holder = Actor::spawn("holder", 1, |g| g.arm_site(fvf::WIN_BEFORE_CLOSURE, 1), move || {
        let g = m.guard();
        let r = m.compute_if_present(&hkey, |_, v| if holder_removes { None } else { Some(*v + 1) }, &g).copied();
        *hr.lock().unwrap() = Some(r);
    });
    match holder.wait_frozen_or_done(20_000) {
        Ok(true) => {}
        Ok(false) => return Err(format!("INCONCLUSIVE the holder finished without reaching its closure [{desc}]")),
        Err(e) => return Err(format!("INCONCLUSIVE {e}")),
    }
    if holder_removes {
        model.remove(&hkey);
    } else {
        model.insert(hkey, 1000 + hkey + 1);
    }
    // the queue
    let results: Arc<Mutex<Vec<Option<Option<u64>>>>> = Arc::new(Mutex::new(vec![None; waiters.len()]));
    let mut actors = Vec::new();
    let mut blocked = 0u64;
    for (i, w) in waiters.iter().enumerate() {
        let (m, w2, res) = (map.clone(), *w, results.clone());
        let a = Actor::spawn(&format!("waiter-{i}"), 10 + i as u16, |_| {}, move || {
            let g = m.guard();
            let r = match w2 {
                W::Insert(k) => m.insert(k, 2000 + k, &g).copied(),
                W::TryInsert(k) => match m.try_insert(k, 2000 + k, &g) {
                    Ok(_) => None,
                    Err(e) => Some(*e.current),
                },
                W::Remove(k) => m.remove(&k, &g).copied(),
                W::ComputeSome(k) => m.compute_if_present(&k, |_, v| Some(*v + 5), &g).copied(),
                W::ComputeNone(k) => m.compute_if_present(&k, |_, _| None, &g).copied(),
                W::Get(k) => m.get(&k, &g).copied(),
                W::Reserve(n) => {
                    m.reserve(n, &g);
                    None
                }
            };
            res.lock().unwrap()[i] = Some(r);
        });
        // wait until this waiter sleeps on the lock (or has finished: it did not need the bin)
        let t0 = std::time::Instant::now();
        loop {
            if a.is_done() {
                break;
            }
            if a.gate.lock_sites.load(std::sync::atomic::Ordering::SeqCst) > 0 && a.thread_state() == 'S' {
                blocked += 1;
                break;
            }
            if t0.elapsed().as_millis() > 1500 {
                break;
            }
            std::thread::yield_now();
        }
        actors.push(a);
    }
    holder.gate.release();
    if let Err(e) = holder.wait_done(30_000) {
        return Err(format!("INCONCLUSIVE {e} [{desc}]"));
    }
    for a in &actors {
        if let Err(e) = a.wait_done(30_000) {
            return Err(format!("INCONCLUSIVE {e} (a call that does not return is C11's business) [{desc}]"));
        }
    }
    holder.join().map_err(|e| format!("the holder panicked: {e} [{desc}]"))?;
    for a in actors {
        a.join().map_err(|e| format!("a queued call panicked: {e} [{desc}]"))?;
    }
    // judge the results (every call works on a key of its own)
    let hres = hres.lock().unwrap().take().flatten();
    let hwant = if holder_removes { None } else { Some(1000 + hkey + 1) };
    if hres != hwant {
        return Err(format!("the holder's compute_if_present({hkey}) returned {hres:?}, expected {hwant:?} [{desc}]"));
    }
    let res = results.lock().unwrap().clone();
    for (i, w) in waiters.iter().enumerate() {
        let got = res[i].ok_or_else(|| format!("queued call {i} left no result [{desc}]"))?;
        let want = match *w {
            W::Insert(k) => {
                model.insert(k, 2000 + k);
                None
            }
            W::TryInsert(k) => {
                model.insert(k, 2000 + k);
                None
            }
            W::Remove(k) => model.remove(&k),
            W::ComputeSome(k) => {
                let v = model[&k] + 5;
                model.insert(k, v);
                Some(v)
            }
            W::ComputeNone(k) => {
                model.remove(&k);
                None
            }
            W::Get(k) => model.get(&k).copied(),
            W::Reserve(_) => None,
        };
        if got != want {
            return Err(format!("queued call {i} {w:?} returned {got:?}, expected {want:?} (no other call touches its key) [{desc}]"));
        }
    }
    let g = map.guard();
    for (k, v) in &model {
        if map.get(k, &g) != Some(v) {
            return Err(format!("get({k}) returned {:?} after the queue drained, expected {v} [{desc}]", map.get(k, &g)));
        }
    }
    let got: BTreeMap<u64, u64> = map.iter(&g).map(|(k, v)| (*k, *v)).collect();
    if got != model || map.len() != model.len() {
        let missing: Vec<_> = model.keys().filter(|k| !got.contains_key(k)).take(6).collect();
        let extra: Vec<_> = got.keys().filter(|k| !model.contains_key(k)).take(6).collect();
        return Err(format!("after the queue drained iteration differs from the model: missing {missing:?}, unexpected {extra:?}, len() = {} vs {} [{desc}]", map.len(), model.len()));
    }
    let d = map.verif_dump(&g);
    let hf = |k: &u64| hash_of(mode, *k);
    let (a, _) = crate::inspect::audit(&d, Some(&hf), map.len(), map.is_empty());
    if !a.ok() {
        return Err(format!("structural audit after the queue drained: {} [{desc}]", a.failures.join("; ")));
    }
    let sig = waiters.iter().fold(fnv(fnv(FNV_OFFSET ^ 0xC0, si as u64), holder_removes as u64), |h, w| fnv_str(h, &format!("{w:?}")));
    Ok((sig, desc, blocked))
}

pub fn run(ctx: &Ctx) -> Outcome {
    let mut out = Outcome::new(
        "lock convoys: a holder frozen inside a compute_if_present closure (owning a bin lock), 2-5 calls queued behind it one by one (inserts of sibling-bin keys, removals, computes, lookups, reserve calls whose transfer must move the bin), then released; \
         nine bin shapes (tree bins that move unsplit low / high, split in two / four, equal hashes, list bins, untreeify threshold); oracle: return values, contents == model, structural audit; distinct = distinct (shape, holder result, queue)",
    );
    hook::install();
    install_panic_capture();
    let first = ctx.args.u64("first-scenario", 0);
    let n = first + ctx.args.u64("scenarios", ctx.q(300, 200_000));
    for i in first..n {
        if i % ctx.shards != ctx.shard {
            continue;
        }
        if !ctx.time_left() {
            break;
        }
        let mut rng = Rng::derive(ctx.seed, 0xC0770, i);
        let r = guarded(|| scenario(&mut rng, i as usize));
        out.evaluations += 1;
        out.add("convoy_scenarios", 1);
        let r = match r {
            Ok(r) => r,
            Err(p) => Err(format!("panicked: {p}")),
        };
        match r {
            Ok((sig, desc, blocked)) => {
                out.distinct.insert(sig);
                out.add("convoy_calls_seen_blocked_on_the_lock", blocked);
                if out.samples.is_empty() && blocked >= 2 {
                    out.sample(Json::s(&desc));
                }
            }
            Err(e) if e.starts_with("INCONCLUSIVE") => {
                if out.inconclusive.len() < 3 {
                    out.inconclusive.push(e);
                }
            }
            Err(e) => {
                out.violate("c01/convoy", e, Json::obj().with("check", Json::s("c01")).with("part", Json::s("convoy")).with("seed", Json::u(ctx.seed)).with("scenario", Json::u(i)));
                break;
            }
        }
    }
    out
}
