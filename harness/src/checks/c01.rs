//! C01 — single-key operations are linearizable under every interleaving.
use super::Ctx;
use crate::freerun::*;
use crate::hashers::*;
use crate::hook;
use crate::outcome::Outcome;
use crate::util::*;
use crate::wgl;
use flurry::verif as fvf;

/// Round configurations biased towards contention, resizes in flight and tree conversions.
pub fn draw(rng: &mut Rng, thorough: bool) -> RoundCfg {
    let shape = rng.below(10);
    let mut cfg = RoundCfg {
        mode: *rng.pick(&ALL_MODES),
        cap: *rng.pick(&[0usize, 1, 2, 3, 16, 64, 256]),
        nkeys: *rng.pick(&[4u64, 8, 16, 24, 48]),
        stable: 0,
        prefill: 0,
        threads: rng.range(2, if thorough { 12 } else { 8 }) as usize,
        ops: rng.range(20, 60) as usize,
        batch: *rng.pick(&[1usize, 2, 8, 120]),
        mix: Mix::standard(),
        set_facade: false,
        delay_level: *rng.pick(&[0usize, 1, 1, 1, 2]),
        focus_site: 0,
        iter_threads: 0,
        holder_threads: 0,
        record_events: true,
        disjoint: false,
        fresh_keys: false,
    };
    match shape {
        0 | 1 => {
            // growth from a tiny table through several generations while operations are in flight
            cfg.mode = *rng.pick(&[UNIFORM, IDENTITY]);
            cfg.cap = *rng.pick(&[0usize, 1, 2, 3]);
            cfg.nkeys = *rng.pick(&[24u64, 48, 64, 128, 200]);
            cfg.mix.insert = 45;
            cfg.mix.remove = 8;
            cfg.focus_site = *rng.pick(&[0, fvf::WIN_TRANSFER_BEFORE_FORWARD, fvf::WIN_TRANSFER_BETWEEN_BINS, fvf::WIN_TRANSFER_AFTER_FORWARD]);
            cfg.ops = rng.range(30, 70) as usize;
        }
        2 | 3 => {
            // one crowded bin oscillating around the treeify / untreeify thresholds
            cfg.mode = *rng.pick(&CROWDED_MODES);
            cfg.cap = *rng.pick(&[64usize, 64, 128]);
            cfg.nkeys = *rng.pick(&[10u64, 12, 16, 24]);
            cfg.prefill = rng.range(4, 9);
            cfg.mix.insert = 28;
            cfg.mix.remove = 24;
            cfg.mix.compute_none = 6;
            cfg.focus_site = *rng.pick(&[0, fvf::WIN_BEFORE_TREEIFY, fvf::WIN_TREE_FIRST_STORED, fvf::WIN_TREE_READ_LOCKED, fvf::WIN_TREE_ROOT_LOCKED, fvf::WIN_HEAD_VALIDATED, fvf::WIN_BEFORE_UNTREEIFY_STORE]);
        }
        4 => {
            // tree bins that are split by a resize while in use
            cfg.mode = SPLITTING;
            cfg.cap = 64;
            cfg.nkeys = *rng.pick(&[24u64, 40, 64]);
            cfg.prefill = cfg.nkeys / 2;
            cfg.mix.reserve = 4;
        }
        5 => {
            cfg.set_facade = true;
            cfg.iter_threads = 0;
        }
        6 => {
            // retain / retain_force / clear pseudo-operations among the per-key calls
            cfg.mix.retain = 2;
            cfg.mix.retain_force = 2;
            cfg.mix.clear = 1;
            cfg.nkeys = *rng.pick(&[4u64, 8, 12]);
            cfg.threads = cfg.threads.min(5);
            cfg.ops = rng.range(15, 30) as usize;
        }
        _ => {}
    }
    cfg
}

pub fn history_violation(out: &mut Outcome, prop: &str, ctx: &Ctx, round: u64, cfg: &RoundCfg, key: u64, h: &[wgl::Ev], init: Option<u64>) {
    out.violate(
        format!("{prop}/freerun/not-linearizable"),
        format!(
            "no sequential order of the {} recorded calls on key {key} (initial value {:?}) explains their results; round {round} of shard {} {}; history: {}",
            h.len(),
            init,
            ctx.shard,
            cfg.to_json(),
            h.iter().map(|e| format!("t{}[{}..{}]{:?}", e.thread, e.call, e.ret, e.op)).collect::<Vec<_>>().join(" | ")
        ),
        Json::obj()
            .with("check", Json::s(prop))
            .with("engine", Json::s("freerun"))
            .with("seed", Json::u(ctx.seed))
            .with("shard", Json::u(ctx.shard))
            .with("round", Json::u(round))
            .with("config", cfg.to_json())
            .with("key", Json::u(key))
            .with("history", Json::Arr(h.iter().map(|e| e.to_json()).collect())),
    );
}

pub fn run(ctx: &Ctx) -> Outcome {
    let mut out = Outcome::new(
        "free-run rounds (2-12 real threads, 4-200 keys, 7 hashers, capacity 0-256, collector batch 1-120, four facades + HashSet, delays injected at hook sites) recorded at the call boundary and checked per key with a \
         Wing-Gong-Lowe linearizability search against Option<value id>; distinct = distinct interleaving signatures (hash of the per-round sequence of (thread, lock/window/event site)) of rounds in which at least one key had two overlapping calls one of which writes",
    );
    hook::install();
    install_panic_capture();
    let target = ctx.args.u64("rounds", ctx.q(250, 6000));
    let mut round = ctx.args.u64("first-round", 0);
    let target = target + round;
    while round < target && ctx.time_left() {
        let rs = splitmix(ctx.seed ^ splitmix(ctx.shard.wrapping_mul(0x1000193) ^ round));
        let mut rng = Rng::new(rs);
        let cfg = draw(&mut rng, ctx.thorough);
        let r = run_round(&cfg, rs);
        round += 1;
        out.evaluations += 1;
        if !r.panics.is_empty() {
            out.violate(
                "c01/freerun/panic",
                format!("a call panicked during round {} ({}): {}; audit at quiescence: {:?}", round - 1, cfg.to_json(), r.panics.join("; "), r.audit_failures),
                Json::obj().with("check", Json::s("c01")).with("seed", Json::u(ctx.seed)).with("shard", Json::u(ctx.shard)).with("round", Json::u(round - 1)).with("config", cfg.to_json()),
            );
            break;
        }
        let pre = r.prefill.clone();
        let set = cfg.set_facade;
        let init = move |k: u64| -> Option<u64> { pre.get(&k).map(|v| if set { 0 } else { *v }) };
        let hr = wgl::check_history(&r.history, &init, 1 << 21);
        out.add("calls_recorded", hr.ops);
        out.add("key_histories_checked", hr.keys_checked);
        out.add("key_histories_unchecked_budget", hr.keys_inconclusive);
        out.add("search_states", hr.states);
        out.add("contended_key_histories", hr.contended_keys);
        out.max("max_overlapping_calls_on_one_key", hr.max_overlap as f64);
        if cfg.set_facade {
            out.add("rounds_set_facade", 1);
        }
        let pubs = r.events.iter().filter(|e| e.site == fvf::EV_TABLE_PUBLISHED).count() as u64;
        let helpers = r.events.iter().filter(|e| e.site == fvf::EV_HELPER_JOINED).count() as u64;
        let tre = r.events.iter().filter(|e| e.site == fvf::EV_TREEIFIED).count() as u64;
        let untre = r.events.iter().filter(|e| e.site == fvf::EV_UNTREEIFIED).count() as u64;
        let split = r.events.iter().filter(|e| e.site == fvf::EV_TREE_SPLIT).count() as u64;
        out.add("resizes_during_rounds", pubs);
        out.add("helper_joins", helpers);
        out.add("treeify_events", tre);
        out.add("untreeify_events", untre);
        out.add("tree_split_events", split);
        if pubs > 0 {
            out.add("rounds_with_resize", 1);
        }
        if helpers > 0 {
            out.add("rounds_with_helper", 1);
        }
        if tre + untre > 0 {
            out.add("rounds_with_tree_conversion", 1);
        }
        if hr.contended_keys > 0 {
            out.distinct.insert(r.signature);
        }
        if out.samples.is_empty() && hr.contended_keys > 0 {
            let k = r.history.iter().find(|e| e.thread != 999).map(|e| e.key).unwrap_or(0);
            let mut h: Vec<&wgl::Ev> = r.history.iter().filter(|e| e.key == k).collect();
            h.sort_by_key(|e| e.call);
            out.sample(Json::obj().with("config", cfg.to_json()).with("key", Json::u(k)).with("history_of_key", Json::Arr(h.iter().take(24).map(|e| e.to_json()).collect())));
        }
        if let Some((k, h)) = hr.violation {
            if ctx.args.has("dump") {
                // debugging aid: the whole round, all keys and all hook events, in ticket order
                let mut lines: Vec<(u64, String)> = Vec::new();
                for e in &r.history {
                    lines.push((e.call, format!("t{} k{} [{}..{}] {:?}", e.thread, e.key, e.call, e.ret, e.op)));
                }
                for e in &r.events {
                    lines.push((e.ticket, format!("    event t{} site {} a={:#x} b={}", e.thread, e.site, e.a, e.b)));
                }
                lines.sort();
                for (_, l) in lines {
                    eprintln!("DUMP {l}");
                }
            }
            history_violation(&mut out, "c01", ctx, round - 1, &cfg, k, &h, init(k));
            break;
        }
    }
    out
}
