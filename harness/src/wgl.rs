//! Recorded histories and the per-key linearizability checker (Wing–Gong search with Lowe's
//! memoisation) against a tiny sequential model of one map slot: `Option<value id>`.
use crate::util::Json;
use std::collections::HashSet;

#[derive(Clone, Copy, Debug, PartialEq, Eq)]
pub enum Op {
    /// get / get_key_value / set get
    Get { res: Option<u64> },
    Contains { res: bool },
    Insert { v: u64, old: Option<u64> },
    /// `ok`: the value was inserted; otherwise `cur` is the value reported as current
    TryInsert { v: u64, ok: bool, cur: Option<u64> },
    /// remove / remove_entry / take
    Remove { res: Option<u64> },
    /// compute_if_present: `saw` = value handed to the closure (None: closure not called),
    /// `out` = what the closure returned (None: remove), `res` = value returned by the call
    Compute { saw: Option<u64>, out: Option<u64>, res: Option<u64> },
    /// set facade (state is presence only)
    SetInsert { res: bool },
    SetRemove { res: bool },
    /// retain pseudo-op for a rejected pair: removes iff the slot still holds `v`
    CondRemove { v: u64 },
    /// retain_force pseudo-op for a rejected key: unconditional removal, result unobserved
    ForceRemove,
    /// clear pseudo-op: the key may or may not be removed somewhere inside the span
    MaybeRemove,
}

#[derive(Clone, Copy, Debug)]
pub struct Ev {
    pub thread: u16,
    pub key: u64,
    pub op: Op,
    pub call: u64,
    pub ret: u64,
}

impl Ev {
    pub fn to_json(&self) -> Json {
        Json::s(format!(
            "t{} k{} [{}..{}] {:?}",
            self.thread, self.key, self.call, self.ret, self.op
        ))
    }
}

pub type State = Option<u64>;

/// Sequential specification: the states the slot may be in after `op` took effect in state `s`
/// and returned what was observed (empty = the observation is impossible in `s`).
#[inline]
pub fn apply(s: State, op: &Op, out: &mut [State; 2]) -> usize {
    match *op {
        Op::Get { res } => {
            if res == s {
                out[0] = s;
                1
            } else {
                0
            }
        }
        Op::Contains { res } => {
            if res == s.is_some() {
                out[0] = s;
                1
            } else {
                0
            }
        }
        Op::Insert { v, old } => {
            if old == s {
                out[0] = Some(v);
                1
            } else {
                0
            }
        }
        Op::TryInsert { v, ok, cur } => match s {
            None => {
                if ok {
                    out[0] = Some(v);
                    1
                } else {
                    0
                }
            }
            Some(c) => {
                if !ok && cur == Some(c) {
                    out[0] = s;
                    1
                } else {
                    0
                }
            }
        },
        Op::Remove { res } => {
            if res == s {
                out[0] = None;
                1
            } else {
                0
            }
        }
        Op::Compute { saw, out: o, res } => match s {
            None => {
                if saw.is_none() && res.is_none() {
                    out[0] = None;
                    1
                } else {
                    0
                }
            }
            Some(c) => {
                if saw == Some(c) && res == o {
                    out[0] = o;
                    1
                } else {
                    0
                }
            }
        },
        Op::SetInsert { res } => {
            if res == s.is_none() {
                out[0] = Some(0);
                1
            } else {
                0
            }
        }
        Op::SetRemove { res } => {
            if res == s.is_some() {
                out[0] = None;
                1
            } else {
                0
            }
        }
        Op::CondRemove { v } => {
            out[0] = if s == Some(v) { None } else { s };
            1
        }
        Op::ForceRemove => {
            out[0] = None;
            1
        }
        Op::MaybeRemove => {
            out[0] = s;
            if s.is_some() {
                out[1] = None;
                2
            } else {
                1
            }
        }
    }
}

pub const MAX_OPS: usize = 256;
type Bits = [u64; 4];

#[derive(Clone, Copy, Debug, PartialEq, Eq)]
pub enum Verdict {
    Linearizable,
    NotLinearizable,
    /// state budget exhausted or history longer than `MAX_OPS`
    Inconclusive,
}

#[derive(Default, Clone, Debug)]
pub struct CheckStats {
    pub states: u64,
    pub max_overlap: usize,
}

/// `h` must be the sub-history of one key. `initial` is the slot's state before the history.
pub fn check_key(h: &mut Vec<Ev>, initial: State, budget: u64, stats: &mut CheckStats) -> Verdict {
    h.sort_by_key(|e| e.call);
    let n = h.len();
    // overlap measure
    {
        let mut ends: Vec<u64> = Vec::new();
        for e in h.iter() {
            ends.retain(|&x| x > e.call);
            ends.push(e.ret);
            stats.max_overlap = stats.max_overlap.max(ends.len());
        }
    }
    if n == 0 {
        return Verdict::Linearizable;
    }
    if n > MAX_OPS {
        return Verdict::Inconclusive;
    }
    // fast path: try the order of return tickets (often linearizable as is)
    let mut memo: HashSet<(Bits, State)> = HashSet::new();
    // explicit DFS stack: (done bits, state, next candidate index to try, branch index)
    struct Frame {
        done: Bits,
        state: State,
        cand: Vec<(usize, State)>,
        pos: usize,
    }
    let full = {
        let mut b = [0u64; 4];
        for i in 0..n {
            b[i / 64] |= 1 << (i % 64);
        }
        b
    };
    let expand = |done: &Bits, state: State| -> Vec<(usize, State)> {
        let mut min_ret = u64::MAX;
        for i in 0..n {
            if done[i / 64] & (1 << (i % 64)) == 0 && h[i].ret < min_ret {
                min_ret = h[i].ret;
            }
        }
        let mut c = Vec::new();
        let mut out = [None; 2];
        for i in 0..n {
            if done[i / 64] & (1 << (i % 64)) != 0 {
                continue;
            }
            if h[i].call > min_ret {
                break;
            }
            let k = apply(state, &h[i].op, &mut out);
            for s in out.iter().take(k) {
                c.push((i, *s));
            }
        }
        c
    };
    let mut stack = vec![Frame {
        done: [0; 4],
        state: initial,
        cand: expand(&[0; 4], initial),
        pos: 0,
    }];
    memo.insert(([0; 4], initial));
    while let Some(top) = stack.last_mut() {
        if top.done == full {
            return Verdict::Linearizable;
        }
        if top.pos >= top.cand.len() {
            stack.pop();
            continue;
        }
        let (i, ns) = top.cand[top.pos];
        top.pos += 1;
        let mut nd = top.done;
        nd[i / 64] |= 1 << (i % 64);
        if nd == full {
            return Verdict::Linearizable;
        }
        if !memo.insert((nd, ns)) {
            continue;
        }
        stats.states += 1;
        if stats.states > budget {
            return Verdict::Inconclusive;
        }
        let cand = expand(&nd, ns);
        stack.push(Frame {
            done: nd,
            state: ns,
            cand,
            pos: 0,
        });
    }
    Verdict::NotLinearizable
}

#[derive(Default, Debug, Clone)]
pub struct HistoryResult {
    pub keys_checked: u64,
    pub keys_inconclusive: u64,
    pub ops: u64,
    pub states: u64,
    pub max_overlap: usize,
    /// sub-histories with at least two overlapping calls of which one is a write
    pub contended_keys: u64,
    pub violation: Option<(u64, Vec<Ev>)>,
}

fn is_write(op: &Op) -> bool {
    !matches!(op, Op::Get { .. } | Op::Contains { .. })
}

/// Checks a whole map history key by key (P-compositionality).
pub fn check_history(all: &[Ev], initial: &dyn Fn(u64) -> State, budget_per_key: u64) -> HistoryResult {
    let mut r = HistoryResult::default();
    let mut by_key: std::collections::BTreeMap<u64, Vec<Ev>> = Default::default();
    for e in all {
        by_key.entry(e.key).or_default().push(*e);
    }
    r.ops = all.len() as u64;
    for (k, mut h) in by_key {
        let mut st = CheckStats::default();
        let v = check_key(&mut h, initial(k), budget_per_key, &mut st);
        r.states += st.states;
        r.max_overlap = r.max_overlap.max(st.max_overlap);
        // contended?
        let mut contended = false;
        for i in 0..h.len() {
            for j in (i + 1)..h.len() {
                if h[j].call > h[i].ret {
                    break;
                }
                if is_write(&h[i].op) || is_write(&h[j].op) {
                    contended = true;
                }
            }
            if contended {
                break;
            }
        }
        if contended {
            r.contended_keys += 1;
        }
        match v {
            Verdict::Linearizable => r.keys_checked += 1,
            Verdict::Inconclusive => r.keys_inconclusive += 1,
            Verdict::NotLinearizable => {
                r.keys_checked += 1;
                if r.violation.is_none() {
                    r.violation = Some((k, h));
                }
            }
        }
    }
    r
}

/// Hand-written good and bad histories; returns the list of self-test failures.
pub fn selftest() -> Vec<String> {
    let mut fails = Vec::new();
    let ev = |t: u16, op: Op, call: u64, ret: u64| Ev { thread: t, key: 1, op, call, ret };
    let run = |name: &str, mut h: Vec<Ev>, expect: Verdict, fails: &mut Vec<String>| {
        let mut st = CheckStats::default();
        let v = check_key(&mut h, None, 1 << 20, &mut st);
        if v != expect {
            fails.push(format!("wgl selftest {name}: expected {expect:?}, got {v:?}"));
        }
    };
    // sequential, fine
    run(
        "seq-ok",
        vec![
            ev(0, Op::Insert { v: 1, old: None }, 1, 2),
            ev(0, Op::Get { res: Some(1) }, 3, 4),
            ev(0, Op::Remove { res: Some(1) }, 5, 6),
            ev(0, Op::Get { res: None }, 7, 8),
        ],
        Verdict::Linearizable,
        &mut fails,
    );
    // concurrent insert/get may see either
    run(
        "overlap-ok",
        vec![
            ev(0, Op::Insert { v: 1, old: None }, 1, 10),
            ev(1, Op::Get { res: None }, 2, 3),
            ev(1, Op::Get { res: Some(1) }, 4, 5),
        ],
        Verdict::Linearizable,
        &mut fails,
    );
    // lost update: two completed inserts, both report no previous value
    run(
        "lost-update",
        vec![
            ev(0, Op::Insert { v: 1, old: None }, 1, 4),
            ev(1, Op::Insert { v: 2, old: None }, 2, 5),
        ],
        Verdict::NotLinearizable,
        &mut fails,
    );
    // stale read after completed write
    run(
        "stale-read",
        vec![
            ev(0, Op::Insert { v: 1, old: None }, 1, 2),
            ev(0, Op::Insert { v: 2, old: Some(1) }, 3, 4),
            ev(1, Op::Get { res: Some(1) }, 5, 6),
        ],
        Verdict::NotLinearizable,
        &mut fails,
    );
    // resurrected key
    run(
        "resurrected",
        vec![
            ev(0, Op::Insert { v: 1, old: None }, 1, 2),
            ev(0, Op::Remove { res: Some(1) }, 3, 4),
            ev(1, Op::Get { res: Some(1) }, 5, 6),
        ],
        Verdict::NotLinearizable,
        &mut fails,
    );
    // duplicated removal result
    run(
        "dup-remove",
        vec![
            ev(0, Op::Insert { v: 1, old: None }, 1, 2),
            ev(0, Op::Remove { res: Some(1) }, 3, 6),
            ev(1, Op::Remove { res: Some(1) }, 4, 7),
        ],
        Verdict::NotLinearizable,
        &mut fails,
    );
    // compute that saw a stale value
    run(
        "compute-stale",
        vec![
            ev(0, Op::Insert { v: 1, old: None }, 1, 2),
            ev(0, Op::Compute { saw: Some(1), out: Some(2), res: Some(2) }, 3, 6),
            ev(1, Op::Compute { saw: Some(1), out: Some(3), res: Some(3) }, 4, 7),
        ],
        Verdict::NotLinearizable,
        &mut fails,
    );
    // try_insert refused with the right current value while an insert overlaps
    run(
        "try-insert-ok",
        vec![
            ev(0, Op::Insert { v: 1, old: None }, 1, 5),
            ev(1, Op::TryInsert { v: 2, ok: false, cur: Some(1) }, 2, 6),
            ev(2, Op::Get { res: Some(1) }, 7, 8),
        ],
        Verdict::Linearizable,
        &mut fails,
    );
    // retain removed a replaced value: cond_remove(v=1) but value 2 vanished
    run(
        "retain-removed-replacement",
        vec![
            ev(0, Op::Insert { v: 1, old: None }, 1, 2),
            ev(1, Op::Insert { v: 2, old: Some(1) }, 4, 5),
            ev(0, Op::CondRemove { v: 1 }, 3, 8),
            ev(2, Op::Get { res: None }, 9, 10),
        ],
        Verdict::NotLinearizable,
        &mut fails,
    );
    run(
        "retain-ok",
        vec![
            ev(0, Op::Insert { v: 1, old: None }, 1, 2),
            ev(1, Op::Insert { v: 2, old: Some(1) }, 4, 5),
            ev(0, Op::CondRemove { v: 1 }, 3, 8),
            ev(2, Op::Get { res: Some(2) }, 9, 10),
        ],
        Verdict::Linearizable,
        &mut fails,
    );
    // retain_force must remove
    run(
        "retain-force-survivor",
        vec![
            ev(0, Op::Insert { v: 1, old: None }, 1, 2),
            ev(0, Op::ForceRemove, 3, 8),
            ev(2, Op::Get { res: Some(1) }, 9, 10),
        ],
        Verdict::NotLinearizable,
        &mut fails,
    );
    run(
        "clear-maybe",
        vec![
            ev(0, Op::Insert { v: 1, old: None }, 1, 2),
            ev(0, Op::MaybeRemove, 3, 8),
            ev(2, Op::Get { res: Some(1) }, 9, 10),
        ],
        Verdict::Linearizable,
        &mut fails,
    );
    run(
        "set-dup-insert",
        vec![
            ev(0, Op::SetInsert { res: true }, 1, 4),
            ev(1, Op::SetInsert { res: true }, 2, 5),
        ],
        Verdict::NotLinearizable,
        &mut fails,
    );
    fails
}
