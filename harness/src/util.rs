//! Small shared helpers: PRNG, FNV hashing, a minimal JSON value, global ticket clock.
use std::collections::BTreeMap;
use std::fmt;
use std::sync::atomic::{AtomicU64, Ordering};

/// xorshift64* seeded through splitmix so that neighbouring seeds give unrelated streams.
#[derive(Clone, Debug)]
pub struct Rng(pub u64);

pub fn splitmix(mut z: u64) -> u64 {
    z = z.wrapping_add(0x9E37_79B9_7F4A_7C15);
    z = (z ^ (z >> 30)).wrapping_mul(0xBF58_476D_1CE4_E5B9);
    z = (z ^ (z >> 27)).wrapping_mul(0x94D0_49BB_1331_11EB);
    z ^ (z >> 31)
}

impl Rng {
    pub fn new(seed: u64) -> Self {
        Rng(splitmix(seed) | 1)
    }
    pub fn derive(seed: u64, a: u64, b: u64) -> Self {
        Rng::new(splitmix(seed ^ splitmix(a.wrapping_mul(0xD1B5_4A32_D192_ED03) ^ splitmix(b))))
    }
    #[inline]
    pub fn next(&mut self) -> u64 {
        let mut x = self.0;
        x ^= x >> 12;
        x ^= x << 25;
        x ^= x >> 27;
        self.0 = x;
        x.wrapping_mul(0x2545_F491_4F6C_DD1D)
    }
    #[inline]
    pub fn below(&mut self, n: u64) -> u64 {
        if n == 0 {
            0
        } else {
            self.next() % n
        }
    }
    pub fn range(&mut self, lo: u64, hi_incl: u64) -> u64 {
        lo + self.below(hi_incl - lo + 1)
    }
    pub fn chance(&mut self, num: u64, den: u64) -> bool {
        self.below(den) < num
    }
    pub fn pick<'a, T>(&mut self, xs: &'a [T]) -> &'a T {
        &xs[self.below(xs.len() as u64) as usize]
    }
    pub fn shuffle<T>(&mut self, xs: &mut [T]) {
        for i in (1..xs.len()).rev() {
            let j = self.below(i as u64 + 1) as usize;
            xs.swap(i, j);
        }
    }
}

pub const FNV_OFFSET: u64 = 0xcbf2_9ce4_8422_2325;
#[inline]
pub fn fnv(h: u64, x: u64) -> u64 {
    let mut h = h;
    for i in 0..8 {
        h ^= (x >> (8 * i)) & 0xff;
        h = h.wrapping_mul(0x0000_0100_0000_01b3);
    }
    h
}
pub fn fnv_str(h: u64, s: &str) -> u64 {
    let mut h = h;
    for b in s.bytes() {
        h ^= b as u64;
        h = h.wrapping_mul(0x0000_0100_0000_01b3);
    }
    h
}

/// One global ticket counter. `Relaxed` RMWs are totally ordered per location and always read
/// the latest value, so tickets are consistent with real time, yet they add no happens-before
/// edge between the threads (matters under Miri).
static CLOCK: AtomicU64 = AtomicU64::new(1);
#[inline]
pub fn tick() -> u64 {
    CLOCK.fetch_add(1, Ordering::Relaxed)
}

#[derive(Clone, Debug, PartialEq)]
pub enum Json {
    Null,
    Bool(bool),
    Int(i64),
    UInt(u64),
    Float(f64),
    Str(String),
    Arr(Vec<Json>),
    Obj(BTreeMap<String, Json>),
}

impl Json {
    pub fn obj() -> Json {
        Json::Obj(BTreeMap::new())
    }
    pub fn set(&mut self, k: &str, v: Json) -> &mut Self {
        if let Json::Obj(m) = self {
            m.insert(k.to_string(), v);
        }
        self
    }
    pub fn with(mut self, k: &str, v: Json) -> Self {
        self.set(k, v);
        self
    }
    pub fn s(x: impl Into<String>) -> Json {
        Json::Str(x.into())
    }
    pub fn u(x: impl TryInto<u64>) -> Json {
        Json::UInt(x.try_into().ok().unwrap_or(0))
    }
}

fn esc(s: &str, f: &mut fmt::Formatter<'_>) -> fmt::Result {
    f.write_str("\"")?;
    for c in s.chars() {
        match c {
            '"' => f.write_str("\\\"")?,
            '\\' => f.write_str("\\\\")?,
            '\n' => f.write_str("\\n")?,
            '\r' => f.write_str("\\r")?,
            '\t' => f.write_str("\\t")?,
            c if (c as u32) < 0x20 => write!(f, "\\u{:04x}", c as u32)?,
            c => write!(f, "{}", c)?,
        }
    }
    f.write_str("\"")
}

impl fmt::Display for Json {
    fn fmt(&self, f: &mut fmt::Formatter<'_>) -> fmt::Result {
        match self {
            Json::Null => f.write_str("null"),
            Json::Bool(b) => write!(f, "{}", b),
            Json::Int(i) => write!(f, "{}", i),
            Json::UInt(u) => write!(f, "{}", u),
            Json::Float(x) => {
                if x.is_finite() {
                    write!(f, "{}", x)
                } else {
                    f.write_str("null")
                }
            }
            Json::Str(s) => esc(s, f),
            Json::Arr(a) => {
                f.write_str("[")?;
                for (i, x) in a.iter().enumerate() {
                    if i > 0 {
                        f.write_str(",")?;
                    }
                    write!(f, "{}", x)?;
                }
                f.write_str("]")
            }
            Json::Obj(m) => {
                f.write_str("{")?;
                for (i, (k, v)) in m.iter().enumerate() {
                    if i > 0 {
                        f.write_str(",")?;
                    }
                    esc(k, f)?;
                    f.write_str(":")?;
                    write!(f, "{}", v)?;
                }
                f.write_str("}")
            }
        }
    }
}

/// Command line `--key value` parser shared by the binaries.
#[derive(Clone, Debug, Default)]
pub struct Args {
    pub pos: Vec<String>,
    pub kv: BTreeMap<String, String>,
}

impl Args {
    pub fn parse(it: impl Iterator<Item = String>) -> Args {
        let mut a = Args::default();
        let v: Vec<String> = it.collect();
        let mut i = 0;
        while i < v.len() {
            if let Some(k) = v[i].strip_prefix("--") {
                if i + 1 < v.len() && !v[i + 1].starts_with("--") {
                    a.kv.insert(k.to_string(), v[i + 1].clone());
                    i += 2;
                } else {
                    a.kv.insert(k.to_string(), "1".to_string());
                    i += 1;
                }
            } else {
                a.pos.push(v[i].clone());
                i += 1;
            }
        }
        a
    }
    pub fn u64(&self, k: &str, d: u64) -> u64 {
        self.kv.get(k).and_then(|s| s.parse().ok()).unwrap_or(d)
    }
    pub fn str(&self, k: &str, d: &str) -> String {
        self.kv.get(k).cloned().unwrap_or_else(|| d.to_string())
    }
    pub fn has(&self, k: &str) -> bool {
        self.kv.contains_key(k)
    }
}

// ------------------------------------------------------------------ panic capture
use std::sync::Mutex;
static LAST_PANIC: Mutex<Option<String>> = Mutex::new(None);
static PANIC_HOOK: std::sync::Once = std::sync::Once::new();
thread_local! {
    /// panics on threads that set this are expected (injected) and are not printed
    pub static QUIET_PANICS: std::cell::Cell<bool> = const { std::cell::Cell::new(false) };
}

/// Installs a panic hook that remembers message and location of the last panic and prints
/// nothing for threads that declared their panics expected.
pub fn install_panic_capture() {
    PANIC_HOOK.call_once(|| {
        std::panic::set_hook(Box::new(|info| {
            let msg = if let Some(s) = info.payload().downcast_ref::<&str>() {
                s.to_string()
            } else if let Some(s) = info.payload().downcast_ref::<String>() {
                s.clone()
            } else {
                "<non-string panic payload>".to_string()
            };
            let loc = info.location().map(|l| format!("{}:{}", l.file(), l.line())).unwrap_or_default();
            *LAST_PANIC.lock().unwrap_or_else(|e| e.into_inner()) = Some(format!("panic at {loc}: {msg}"));
            let quiet = QUIET_PANICS.try_with(|q| q.get()).unwrap_or(false);
            if !quiet {
                eprintln!("[fv] panic at {loc}: {msg}");
            }
        }));
    });
}
pub fn last_panic() -> Option<String> {
    LAST_PANIC.lock().unwrap_or_else(|e| e.into_inner()).take()
}
/// Runs `f`, turning a panic into `Err(message with location)`.
pub fn guarded<T>(f: impl FnOnce() -> T) -> Result<T, String> {
    install_panic_capture();
    match std::panic::catch_unwind(std::panic::AssertUnwindSafe(f)) {
        Ok(v) => Ok(v),
        Err(_) => Err(last_panic().unwrap_or_else(|| "panic (message lost)".into())),
    }
}

static LABEL: Mutex<String> = Mutex::new(String::new());
/// Name of the running check, used to mark progress on stderr (so that a crash report can say
/// what the worker was doing).
pub fn set_label(l: &str) {
    *LABEL.lock().unwrap_or_else(|e| e.into_inner()) = l.to_string();
}
pub fn mark(what: &str) {
    let l = LABEL.lock().unwrap_or_else(|e| e.into_inner()).clone();
    eprintln!("[fv] {}/{}", if l.is_empty() { "c00" } else { &l }, what);
}
