//! Sequential engine: one thread drives random operation sequences against `BTreeMap` and, on
//! request, audits the table (C05), the tree bins and lookup cost (C06) and table growth (C14)
//! after every step.
use crate::api::*;
use crate::hashers::{hash_of, HB};
use crate::hook;
use crate::inspect;
use crate::types::*;
use crate::util::*;
use flurry::verif as fvf;
use std::collections::BTreeMap;

#[derive(Clone, Debug)]
pub struct SeqCfg {
    pub mode: u8,
    pub cap: usize,
    pub universe: u64,
    pub steps: usize,
    pub facade: u8,
    /// audit the table every n steps (0 = only at the end of the sequence)
    pub audit_every: usize,
    pub growth: bool,
    pub cmp_bound: bool,
    /// 0 general, 1 tree heavy, 2 growth (no bulk ops that reserve)
    pub profile: u8,
    pub batch: usize,
    pub allow_replace_map: bool,
}

impl SeqCfg {
    pub fn to_json(&self) -> Json {
        Json::obj()
            .with("hasher", Json::s(crate::hashers::mode_name(self.mode)))
            .with("mode", Json::u(self.mode))
            .with("cap", Json::u(self.cap))
            .with("universe", Json::u(self.universe))
            .with("steps", Json::u(self.steps))
            .with("facade", Json::u(self.facade))
            .with("audit_every", Json::u(self.audit_every))
            .with("profile", Json::u(self.profile))
            .with("batch", Json::u(self.batch))
    }
}

#[derive(Clone, Debug, Default)]
pub struct SeqStats {
    pub steps: u64,
    pub ops: BTreeMap<&'static str, u64>,
    pub treeify: u64,
    pub untreeify: u64,
    pub tree_split: u64,
    pub resizes: u64,
    pub clears_on_tree: u64,
    pub audits: u64,
    pub tree_bins_audited: u64,
    pub lookups_counted: u64,
    pub max_cmp_ratio: f64,
    pub max_height_ratio: f64,
    pub max_tree: usize,
    pub max_list: usize,
    pub max_len: usize,
    pub shapes: Vec<u64>,
    pub growths: u64,
    pub trace: Vec<String>,
    pub features: u32,
}

pub const F_TREEIFY: u32 = 1;
pub const F_TREE_SPLIT: u32 = 2;
pub const F_UNTREEIFY: u32 = 4;
pub const F_MULTI_RESIZE: u32 = 8;
pub const F_CLEAR_ON_TREE: u32 = 16;

pub struct SeqFailure {
    pub sig: String,
    pub detail: String,
}

type Model = BTreeMap<u64, (u32, u64)>;

fn new_map(mode: u8, cap: usize, batch: usize) -> Map {
    let m = if cap == 0 { Map::with_hasher(HB::new(mode)) } else { Map::with_capacity_and_hasher(cap, HB::new(mode)) };
    m.with_collector(seize::Collector::new().batch_size(batch.max(1)))
}

macro_rules! bail {
    ($sig:expr, $($arg:tt)*) => {
        return Err(SeqFailure { sig: $sig.to_string(), detail: format!($($arg)*) })
    };
}

/// Full comparison of the public view with the model.
pub fn compare_full(api: &Api<'_>, model: &Model, universe: u64) -> Result<(), SeqFailure> {
    let mut it = api.iter();
    it.sort_by_key(|e| e.k);
    let want: Vec<KV> = model.iter().map(|(k, (o, v))| KV { k: *k, origin: *o, v: *v }).collect();
    if it != want {
        bail!("iter-mismatch", "iter() yields {:?}, model holds {:?}", it, want);
    }
    let mut ks = api.keys();
    ks.sort();
    let wk: Vec<(u64, u32)> = model.iter().map(|(k, (o, _))| (*k, *o)).collect();
    if ks != wk {
        bail!("keys-mismatch", "keys() yields {:?}, model holds {:?}", ks, wk);
    }
    let mut vs = api.values();
    vs.sort();
    let mut wv: Vec<u64> = model.values().map(|x| x.1).collect();
    wv.sort();
    if vs != wv {
        bail!("values-mismatch", "values() yields {:?}, model holds {:?}", vs, wv);
    }
    for k in 0..universe {
        let g = api.get(k);
        let w = model.get(&k).map(|x| x.1);
        if g != w {
            bail!("get-mismatch", "get({k}) = {:?}, model says {:?}", g, w);
        }
        if api.contains_key(k) != w.is_some() {
            bail!("contains-mismatch", "contains_key({k}) disagrees with model {:?}", w);
        }
    }
    if api.len() != model.len() || api.is_empty() != model.is_empty() {
        bail!("len-mismatch", "len() = {}, is_empty() = {}, model holds {}", api.len(), api.is_empty(), model.len());
    }
    Ok(())
}

/// Structural audit + (optionally) the lookup comparison bound.
pub fn audit_map(map: &Map, mode: u8, model: Option<&Model>, cmp_bound: bool, st: &mut SeqStats) -> Result<(), SeqFailure> {
    let g = map.guard();
    let d = map.verif_dump(&g);
    let hf = |k: &TKey| hash_of(mode, k.k);
    let (a, entries) = inspect::audit(&d, Some(&hf), map.len(), map.is_empty());
    st.audits += 1;
    st.tree_bins_audited += a.tree_bins as u64;
    st.max_list = st.max_list.max(a.max_list);
    st.max_len = st.max_len.max(a.len);
    if a.max_height_ratio > st.max_height_ratio {
        st.max_height_ratio = a.max_height_ratio;
    }
    for s in &a.tree_sizes {
        st.max_tree = st.max_tree.max(*s);
    }
    if a.tree_bins > 0 && st.shapes.len() < 4096 {
        st.shapes.push(a.shape_hash);
    }
    if !a.ok() {
        bail!("structure", "{}", a.failures.join("; "));
    }
    if let Some(model) = model {
        let mut got: Vec<(u64, u64)> = entries.iter().map(|e| (e.key.k, e.value.map(|v| v.get()).unwrap_or(u64::MAX))).collect();
        got.sort();
        let want: Vec<(u64, u64)> = model.iter().map(|(k, v)| (*k, v.1)).collect();
        if got != want {
            bail!("dump-vs-model", "table holds {:?}, model holds {:?}", got, want);
        }
    }
    if cmp_bound && d.len >= 64 {
        // every bin with >= 8 entries: all present keys and some absent ones
        let mut by_bin: BTreeMap<usize, Vec<u64>> = BTreeMap::new();
        for e in &entries {
            by_bin.entry(e.bin).or_default().push(e.key.k);
        }
        for (bin, keys) in by_bin {
            let n = keys.len();
            if n < 8 {
                continue;
            }
            let bound = inspect::cmp_bound(n);
            let mx = keys.iter().copied().max().unwrap_or(0);
            let mut probes: Vec<u64> = keys.clone();
            // absent keys that land in the same bin (below, between, above)
            let mut added = 0;
            let mut c = 0u64;
            while added < n.min(24) && c < 4 * mx + 64 {
                if !keys.contains(&c) && (hash_of(mode, c) & (d.len as u64 - 1)) as usize == bin {
                    probes.push(c);
                    added += 1;
                }
                c += 1;
            }
            for p in probes {
                cmp_reset();
                let _ = map.get(&KQ(p), &g);
                let used = cmp_count();
                st.lookups_counted += 1;
                let ratio = used as f64 / bound as f64;
                if ratio > st.max_cmp_ratio {
                    st.max_cmp_ratio = ratio;
                }
                if used > bound {
                    bail!("cmp-bound", "lookup of key {p} in bin {bin} holding {n} entries took {used} key comparisons, bound 4*log2(n+1) = {bound}");
                }
            }
        }
    }
    let c = corrupt_take();
    if !c.is_empty() {
        bail!("corrupt-reference", "{}", c.join("; "));
    }
    Ok(())
}

struct Growth {
    len_before: usize,
    bin_pop_before: usize,
}

fn growth_before(map: &Map, mode: u8, model: &Model, key: Option<u64>) -> Growth {
    let g = map.guard();
    let len = map.verif_table_len(&g);
    let mut pop = 0;
    if let (Some(k), true) = (key, len > 0) {
        let b = hash_of(mode, k) & (len as u64 - 1);
        pop = model.keys().filter(|x| hash_of(mode, **x) & (len as u64 - 1) == b).count();
    }
    Growth { len_before: len, bin_pop_before: pop }
}

#[derive(Clone, Copy, PartialEq, Eq, Debug)]
enum Cause {
    Insert,
    Reserve,
    Other,
}

fn growth_after(map: &Map, gb: &Growth, cause: Cause, opname: &str, count_after: usize, st: &mut SeqStats) -> Result<(), SeqFailure> {
    let g = map.guard();
    let len = map.verif_table_len(&g);
    if len != 0 && !len.is_power_of_two() {
        bail!("growth-pow2", "table length {len} after {opname} is not a power of two");
    }
    if len > (1 << 30) {
        bail!("growth-max", "table length {len} exceeds 2^30");
    }
    if len < gb.len_before {
        bail!("growth-shrink", "table shrank from {} to {len} during {opname}", gb.len_before);
    }
    if gb.len_before > 0 && len > gb.len_before {
        st.growths += 1;
        match cause {
            Cause::Reserve => {}
            Cause::Other => bail!(
                format!("growth-by-{opname}"),
                "table grew from {} to {len} bins during {opname}, which never adds an entry ({} entries afterwards)",
                gb.len_before, count_after
            ),
            Cause::Insert => {
                let thr = gb.len_before - gb.len_before / 4;
                let by_threshold = count_after >= thr;
                let by_bin = gb.len_before < 64 && gb.bin_pop_before >= 8;
                if !by_threshold && !by_bin {
                    bail!(
                        "growth-spurious",
                        "table grew from {} to {len} bins during {opname} with {count_after} entries (threshold {thr}) and {} entries in the key's bin",
                        gb.len_before, gb.bin_pop_before
                    );
                }
            }
        }
    }
    Ok(())
}

/// Runs one sequence. Deterministic in (`cfg`, `rng` state).
pub fn run_seq(cfg: &SeqCfg, rng: &mut Rng, st: &mut SeqStats) -> Result<(), SeqFailure> {
    crate::hashers::set_default_mode(cfg.mode);
    let ev0 = |s: u32| hook::site_hit_count(s);
    let (t0, u0, s0, p0) = (ev0(fvf::EV_TREEIFIED), ev0(fvf::EV_UNTREEIFIED), ev0(fvf::EV_TREE_SPLIT), ev0(fvf::EV_TABLE_PUBLISHED));
    let mut map = new_map(cfg.mode, cfg.cap, cfg.batch);
    let mut model: Model = BTreeMap::new();
    let mut origin: u32 = 1;
    let mut vctr: u64 = 1;
    let mut done = 0usize;
    let mut resizes_in_one_call = 0u64;
    if cfg.growth {
        // construction with capacity 0 must not allocate
        let g = map.guard();
        let len = map.verif_table_len(&g);
        if cfg.cap == 0 && len != 0 {
            bail!("cap0-allocates", "map constructed with capacity 0 has a table of {len} bins");
        }
    }
    while done < cfg.steps {
        let seg = (rng.range(1, 40) as usize).min(cfg.steps - done);
        {
            let guard = map.guard();
            let facade = if cfg.facade <= 3 { cfg.facade } else { rng.below(4) as u8 };
            let api = Api { map: &map, facade, guard: &guard };
            for _ in 0..seg {
                done += 1;
                st.steps += 1;
                let k = rng.below(cfg.universe);
                let w = rng.below(100);
                let (name, key_for_growth, cause): (&'static str, Option<u64>, Cause);
                // pick the operation
                let op: u8 = match cfg.profile {
                    1 => match w {
                        0..=44 => 0,
                        45..=74 => 6,
                        75..=79 => 9,
                        80..=84 => 7,
                        85..=90 => 2,
                        91..=92 => 1,
                        93 => 11,
                        94 => 12,
                        95 => 8,
                        96 => 3,
                        97 => 16,
                        98 => 14,
                        _ => 10,
                    },
                    _ => match w {
                        0..=21 => 0,
                        22..=29 => 1,
                        30..=37 => 2,
                        38..=41 => 3,
                        42..=45 => 4,
                        46..=47 => 5,
                        48..=57 => 6,
                        58..=62 => 7,
                        63..=67 => 8,
                        68..=71 => 9,
                        72..=74 => 10,
                        75..=76 => 11,
                        77..=78 => 12,
                        79 => 13,
                        80..=81 => 14,
                        82..=84 => 15,
                        85..=87 => 16,
                        88..=89 => 17,
                        _ => 0,
                    },
                };
                let op = if cfg.profile == 2 && (op == 15) { 0 } else { op };
                let gb = if cfg.growth {
                    Some(growth_before(&map, cfg.mode, &model, Some(k)))
                } else {
                    None
                };
                let pub0 = hook::site_hit_count(fvf::EV_TABLE_PUBLISHED);
                match op {
                    0 => {
                        name = "insert";
                        cause = Cause::Insert;
                        key_for_growth = Some(k);
                        vctr += 1;
                        origin += 1;
                        let old = api.insert(k, origin, vctr);
                        let want = model.get(&k).map(|x| x.1);
                        if old != want {
                            bail!("insert-result", "insert({k}) returned {:?}, model says {:?}", old, want);
                        }
                        let o = model.get(&k).map(|x| x.0).unwrap_or(origin);
                        model.insert(k, (o, vctr));
                    }
                    1 => {
                        name = "try_insert";
                        cause = Cause::Insert;
                        key_for_growth = Some(k);
                        vctr += 1;
                        origin += 1;
                        let r = api.try_insert(k, origin, vctr);
                        match (r, model.get(&k)) {
                            (Ok(v), None) if v == vctr => {
                                model.insert(k, (origin, vctr));
                            }
                            (Err((cur, intact)), Some(m)) if cur == m.1 => {
                                if !intact {
                                    bail!("try_insert-handback", "try_insert({k}) refused but did not hand the value back intact");
                                }
                            }
                            (r, m) => bail!("try_insert-result", "try_insert({k}) returned {:?}, model says {:?}", r, m),
                        }
                    }
                    2 | 5 => {
                        name = if op == 2 { "get" } else { "get_by_key" };
                        cause = Cause::Other;
                        key_for_growth = None;
                        let r = if op == 2 { api.get(k) } else { api.get_by_key(k) };
                        let want = model.get(&k).map(|x| x.1);
                        if r != want {
                            bail!("get-result", "{name}({k}) returned {:?}, model says {:?}", r, want);
                        }
                    }
                    3 => {
                        name = "get_key_value";
                        cause = Cause::Other;
                        key_for_growth = None;
                        let r = api.get_key_value(k);
                        let want = model.get(&k).map(|x| KV { k, origin: x.0, v: x.1 });
                        if r != want {
                            bail!("get_key_value-result", "get_key_value({k}) returned {:?}, model says {:?} (origin = tag of the key instance stored first)", r, want);
                        }
                    }
                    4 => {
                        name = "contains_key";
                        cause = Cause::Other;
                        key_for_growth = None;
                        if api.contains_key(k) != model.contains_key(&k) {
                            bail!("contains-result", "contains_key({k}) disagrees with the model");
                        }
                    }
                    6 => {
                        name = "remove";
                        cause = Cause::Other;
                        key_for_growth = None;
                        let r = api.remove(k);
                        let want = model.remove(&k).map(|x| x.1);
                        if r != want {
                            bail!("remove-result", "remove({k}) returned {:?}, model says {:?}", r, want);
                        }
                    }
                    7 => {
                        name = "remove_entry";
                        cause = Cause::Other;
                        key_for_growth = None;
                        let r = api.remove_entry(k);
                        let want = model.remove(&k).map(|x| KV { k, origin: x.0, v: x.1 });
                        if r != want {
                            bail!("remove_entry-result", "remove_entry({k}) returned {:?}, model says {:?}", r, want);
                        }
                    }
                    8 | 9 | 10 => {
                        name = match op {
                            8 => "compute_some",
                            9 => "compute_none",
                            _ => "compute_cond",
                        };
                        cause = Cause::Other;
                        key_for_growth = None;
                        vctr += 1;
                        let nv = vctr;
                        let r = api.compute(k, |_kk, cur| match op {
                            8 => Some(nv),
                            9 => None,
                            _ => {
                                if cur % 2 == 0 {
                                    Some(nv)
                                } else {
                                    None
                                }
                            }
                        });
                        match model.get(&k).copied() {
                            None => {
                                if r.calls != 0 || r.res.is_some() {
                                    bail!("compute-absent", "compute_if_present({k}) on an absent key: closure calls {}, result {:?}", r.calls, r.res);
                                }
                            }
                            Some((o, cur)) => {
                                if r.calls != 1 || r.saw != Some(KV { k, origin: o, v: cur }) {
                                    bail!("compute-args", "compute_if_present({k}): closure calls {}, saw {:?}, model holds {:?}", r.calls, r.saw, (o, cur));
                                }
                                let out = match op {
                                    8 => Some(nv),
                                    9 => None,
                                    _ => {
                                        if cur % 2 == 0 {
                                            Some(nv)
                                        } else {
                                            None
                                        }
                                    }
                                };
                                if r.res != out {
                                    bail!("compute-result", "compute_if_present({k}) returned {:?}, closure returned {:?}", r.res, out);
                                }
                                match out {
                                    Some(v) => {
                                        model.insert(k, (o, v));
                                    }
                                    None => {
                                        model.remove(&k);
                                    }
                                }
                            }
                        }
                    }
                    11 | 12 => {
                        name = if op == 11 { "retain" } else { "retain_force" };
                        cause = Cause::Other;
                        key_for_growth = None;
                        let m = rng.range(2, 5);
                        let r = rng.below(m);
                        let mut seen: Vec<(u64, u64)> = Vec::new();
                        let pred = |kk: u64, vv: u64| {
                            seen.push((kk, vv));
                            kk % m != r
                        };
                        if op == 11 {
                            api.retain(pred)
                        } else {
                            api.retain_force(pred)
                        }
                        seen.sort();
                        let want: Vec<(u64, u64)> = model.iter().map(|(k, v)| (*k, v.1)).collect();
                        if seen != want {
                            bail!(format!("{name}-predicate-args"), "{name}: predicate was shown {:?}, model holds {:?}", seen, want);
                        }
                        model.retain(|kk, _| kk % m != r);
                    }
                    13 => {
                        name = "clear";
                        cause = Cause::Other;
                        key_for_growth = None;
                        let had_tree = {
                            let g = map.guard();
                            map.verif_dump(&g).bins.iter().any(|b| matches!(b, fvf::BinDump::Tree { .. }))
                        };
                        if had_tree {
                            st.clears_on_tree += 1;
                            st.features |= F_CLEAR_ON_TREE;
                        }
                        api.clear();
                        model.clear();
                    }
                    14 => {
                        name = "reserve";
                        cause = Cause::Reserve;
                        key_for_growth = None;
                        let n = *rng.pick(&[0usize, 1, 3, 8, 20, 50, 130]);
                        api.reserve(n);
                    }
                    15 => {
                        name = "extend";
                        cause = Cause::Reserve;
                        key_for_growth = None;
                        let n = rng.range(0, 12);
                        let mut items = Vec::new();
                        for _ in 0..n {
                            let kk = rng.below(cfg.universe);
                            vctr += 1;
                            origin += 1;
                            items.push((kk, origin, vctr));
                        }
                        let it = items.iter().map(|&(kk, o, v)| (TKey::new(kk, o), TVal::new(v))).collect::<Vec<_>>();
                        let mut mref = &map;
                        mref.extend(it);
                        for (kk, o, v) in items {
                            let oo = model.get(&kk).map(|x| x.0).unwrap_or(o);
                            model.insert(kk, (oo, v));
                        }
                    }
                    16 => {
                        name = "iterate";
                        cause = Cause::Other;
                        key_for_growth = None;
                        compare_full(&api, &model, cfg.universe)?;
                    }
                    _ => {
                        name = "len";
                        cause = Cause::Other;
                        key_for_growth = None;
                    }
                }
                let _ = key_for_growth;
                *st.ops.entry(name).or_insert(0) += 1;
                if st.trace.len() < 48 {
                    st.trace.push(format!("{name}({k})"));
                }
                let pubs = hook::site_hit_count(fvf::EV_TABLE_PUBLISHED) - pub0;
                if pubs >= 2 {
                    resizes_in_one_call += 1;
                    st.features |= F_MULTI_RESIZE;
                }
                if api.len() != model.len() || api.is_empty() != model.is_empty() {
                    bail!("len-after-op", "after {name}({k}): len() = {}, model holds {}", api.len(), model.len());
                }
                if let Some(gb) = &gb {
                    growth_after(&map, gb, cause, name, model.len(), st)?;
                }
                if cfg.audit_every > 0 && done % cfg.audit_every == 0 {
                    audit_map(&map, cfg.mode, Some(&model), cfg.cmp_bound, st)?;
                }
            }
        }
        // between segments (no guard alive): operations that need or produce a whole map
        if cfg.allow_replace_map && rng.chance(1, 6) {
            match rng.below(4) {
                0 => {
                    // clone and equality
                    *st.ops.entry("clone").or_insert(0) += 1;
                    let c = map.clone();
                    if !(c == map) || !(map == c) {
                        bail!("clone-eq", "a clone does not compare equal to its source");
                    }
                    {
                        let g = c.guard();
                        let api = Api { map: &c, facade: 0, guard: &g };
                        compare_full(&api, &model, cfg.universe)?;
                        // a change makes them unequal
                        vctr += 1;
                        origin += 1;
                        api.insert(cfg.universe + 1, origin, vctr);
                    }
                    if c == map {
                        bail!("clone-neq", "maps with different contents compare equal");
                    }
                    if rng.chance(1, 2) {
                        {
                            let g = c.guard();
                            c.remove(&KQ(cfg.universe + 1), &g);
                        }
                        map = c;
                    }
                }
                1 | 2 => {
                    // collect with a size hint that is exact, zero or lying low, with repeated keys
                    *st.ops.entry("collect").or_insert(0) += 1;
                    let mut items: Vec<(u64, u32, u64)> = model.iter().map(|(k, v)| (*k, v.0, v.1)).collect();
                    let dups = rng.below(4);
                    let mut new_model = model.clone();
                    for _ in 0..dups {
                        if items.is_empty() {
                            break;
                        }
                        let kk = items[rng.below(items.len() as u64) as usize].0;
                        vctr += 1;
                        origin += 1;
                        items.push((kk, origin, vctr));
                    }
                    rng.shuffle(&mut items);
                    new_model.clear();
                    for &(kk, o, v) in &items {
                        let oo = new_model.get(&kk).map(|x: &(u32, u64)| x.0).unwrap_or(o);
                        new_model.insert(kk, (oo, v));
                    }
                    let hint = rng.below(3);
                    let n = items.len();
                    let base = items.into_iter().map(|(kk, o, v)| (TKey::new(kk, o), TVal::new(v)));
                    let m2: Map = match hint {
                        0 => base.collect(),
                        1 => base.filter(|_| true).collect(),
                        _ => HintIter { inner: base, lower: n / 3 }.collect(),
                    };
                    {
                        let g = m2.guard();
                        let api = Api { map: &m2, facade: 0, guard: &g };
                        compare_full(&api, &new_model, cfg.universe)?;
                    }
                    audit_map(&m2, cfg.mode, Some(&new_model), false, st)?;
                    map = m2;
                    model = new_model;
                }
                _ => {
                    *st.ops.entry("debug").or_insert(0) += 1;
                    let s = format!("{:?}", map);
                    let n = s.matches("TKey {").count();
                    if n != model.len() || !s.starts_with('{') || !s.ends_with('}') {
                        bail!("debug-format", "Debug output lists {n} entries, model holds {}", model.len());
                    }
                }
            }
        }
    }
    // end of sequence: full comparison and audit
    {
        let guard = map.guard();
        let api = Api { map: &map, facade: 0, guard: &guard };
        compare_full(&api, &model, cfg.universe)?;
    }
    audit_map(&map, cfg.mode, Some(&model), cfg.cmp_bound, st)?;
    st.treeify += ev0(fvf::EV_TREEIFIED) - t0;
    st.untreeify += ev0(fvf::EV_UNTREEIFIED) - u0;
    st.tree_split += ev0(fvf::EV_TREE_SPLIT) - s0;
    st.resizes += ev0(fvf::EV_TABLE_PUBLISHED) - p0;
    if ev0(fvf::EV_TREEIFIED) > t0 {
        st.features |= F_TREEIFY;
    }
    if ev0(fvf::EV_UNTREEIFIED) > u0 {
        st.features |= F_UNTREEIFY;
    }
    if ev0(fvf::EV_TREE_SPLIT) > s0 {
        st.features |= F_TREE_SPLIT;
    }
    let _ = resizes_in_one_call;
    drop(map);
    Ok(())
}

/// Iterator adaptor that under-reports its length.
pub struct HintIter<I> {
    pub inner: I,
    pub lower: usize,
}
impl<I: Iterator> Iterator for HintIter<I> {
    type Item = I::Item;
    fn next(&mut self) -> Option<I::Item> {
        self.inner.next()
    }
    fn size_hint(&self) -> (usize, Option<usize>) {
        (self.lower, None)
    }
}

// ------------------------------------------------------------------------------------ sets
pub type Set = flurry::HashSet<TKey, HB>;

fn new_set(mode: u8, cap: usize) -> Set {
    if cap == 0 {
        Set::with_hasher(HB::new(mode))
    } else {
        Set::with_capacity_and_hasher(cap, HB::new(mode))
    }
}

fn set_contents(s: &Set) -> Vec<(u64, u32)> {
    let g = s.guard();
    let mut v: Vec<(u64, u32)> = s.iter(&g).map(|k| { k.verify(); (k.k, k.origin) }).collect();
    v.sort();
    v
}

/// One sequence on `HashSet` / `HashSetRef` against `BTreeSet`, including the set relations.
pub fn run_seq_set(cfg: &SeqCfg, rng: &mut Rng, st: &mut SeqStats) -> Result<(), SeqFailure> {
    use std::collections::BTreeSet;
    crate::hashers::set_default_mode(cfg.mode);
    let mut set = new_set(cfg.mode, cfg.cap);
    let mut model: BTreeMap<u64, u32> = BTreeMap::new();
    let mut origin = 1u32;
    for step in 0..cfg.steps {
        st.steps += 1;
        let k = rng.below(cfg.universe);
        let pinned = rng.chance(1, 2);
        let w = rng.below(100);
        let name: &'static str;
        match w {
            0..=29 => {
                name = "set_insert";
                origin += 1;
                let r = if pinned { set.pin().insert(TKey::new(k, origin)) } else { set.insert(TKey::new(k, origin), &set.guard()) };
                let want = !model.contains_key(&k);
                if r != want {
                    bail!("set-insert-result", "HashSet::insert({k}) returned {r}, model says {want}");
                }
                model.entry(k).or_insert(origin);
            }
            30..=44 => {
                name = "set_remove";
                let r = if pinned { set.pin().remove(&KQ(k)) } else { set.remove(&KQ(k), &set.guard()) };
                let want = model.remove(&k).is_some();
                if r != want {
                    bail!("set-remove-result", "HashSet::remove({k}) returned {r}, model says {want}");
                }
            }
            45..=54 => {
                name = "set_take";
                let g = set.guard();
                let r = if pinned { set.with_guard(&g).take(&KQ(k)).map(|x| (x.k, x.origin)) } else { set.take(&KQ(k), &g).map(|x| (x.k, x.origin)) };
                let want = model.remove(&k).map(|o| (k, o));
                if r != want {
                    bail!("set-take-result", "HashSet::take({k}) returned {:?}, model says {:?}", r, want);
                }
            }
            55..=69 => {
                name = "set_contains_get";
                let g = set.guard();
                let c = if pinned { set.pin().contains(&KQ(k)) } else { set.contains(&KQ(k), &g) };
                let gt = set.get(&KQ(k), &g).map(|x| (x.k, x.origin));
                let want = model.get(&k).map(|o| (k, *o));
                if c != want.is_some() || gt != want {
                    bail!("set-get-result", "contains({k}) = {c}, get({k}) = {:?}, model says {:?}", gt, want);
                }
            }
            70..=74 => {
                name = "set_retain";
                let m = rng.range(2, 4);
                let r = rng.below(m);
                if pinned { set.pin().retain(|x| x.k % m != r) } else { set.retain(|x| x.k % m != r, &set.guard()) }
                model.retain(|kk, _| kk % m != r);
            }
            75..=76 => {
                name = "set_clear";
                if pinned { set.pin().clear() } else { set.clear(&set.guard()) }
                model.clear();
            }
            77..=79 => {
                name = "set_reserve";
                if pinned { set.pin().reserve(rng.below(40) as usize) } else { set.reserve(rng.below(40) as usize, &set.guard()) }
            }
            80..=84 => {
                name = "set_extend";
                let n = rng.below(8);
                let mut items = Vec::new();
                for _ in 0..n {
                    origin += 1;
                    items.push((rng.below(cfg.universe), origin));
                }
                let mut sref = &set;
                sref.extend(items.iter().map(|&(kk, o)| TKey::new(kk, o)));
                for (kk, o) in items {
                    model.entry(kk).or_insert(o);
                }
            }
            85..=92 => {
                name = "set_relations";
                // a second set drawn from the same universe
                let other_model: BTreeSet<u64> = (0..cfg.universe).filter(|_| rng.chance(1, 3)).collect();
                let variant = rng.below(3);
                let other_model: BTreeSet<u64> = match variant {
                    0 => other_model,
                    1 => model.keys().copied().filter(|_| rng.chance(2, 3)).collect(), // subset
                    _ => model.keys().copied().chain(other_model).collect(),           // superset
                };
                let other: Set = other_model.iter().map(|kk| TKey::new(*kk, 0)).collect();
                let mine: BTreeSet<u64> = model.keys().copied().collect();
                let (g1, g2) = (set.guard(), other.guard());
                let got = if pinned {
                    let (a, b) = (set.with_guard(&g1), other.with_guard(&g2));
                    (a.is_disjoint(&b), a.is_subset(&b), a.is_superset(&b))
                } else {
                    (set.is_disjoint(&other, &g1, &g2), set.is_subset(&other, &g1, &g2), set.is_superset(&other, &g1, &g2))
                };
                let want = (mine.is_disjoint(&other_model), mine.is_subset(&other_model), mine.is_superset(&other_model));
                if got != want {
                    bail!("set-relations", "(disjoint, subset, superset) = {:?}, BTreeSet says {:?} for {:?} vs {:?}", got, want, mine, other_model);
                }
                let eq = set == other;
                if eq != (mine == other_model) {
                    bail!("set-eq", "set equality = {eq}, model says {}", mine == other_model);
                }
            }
            93..=96 => {
                name = "set_clone_collect";
                if rng.chance(1, 2) {
                    let c = set.clone();
                    if !(c == set) {
                        bail!("set-clone-eq", "cloned set differs from its source");
                    }
                    set = c;
                } else {
                    let items: Vec<(u64, u32)> = model.iter().map(|(a, b)| (*a, *b)).collect();
                    let c: Set = items.iter().map(|&(kk, o)| TKey::new(kk, o)).collect();
                    set = c;
                }
            }
            _ => {
                name = "set_debug";
                let s = format!("{:?}", set);
                if s.matches("TKey {").count() != model.len() {
                    bail!("set-debug", "Debug output of set lists {} entries, model holds {}", s.matches("TKey {").count(), model.len());
                }
            }
        }
        *st.ops.entry(name).or_insert(0) += 1;
        if st.trace.len() < 48 {
            st.trace.push(format!("{name}({k})"));
        }
        if set.len() != model.len() || set.is_empty() != model.is_empty() || set.pin().len() != model.len() {
            bail!("set-len", "after {name}: len() = {}, model holds {}", set.len(), model.len());
        }
        if (cfg.audit_every > 0 && step % cfg.audit_every == 0) || step + 1 == cfg.steps {
            let got = set_contents(&set);
            let want: Vec<(u64, u32)> = model.iter().map(|(a, b)| (*a, *b)).collect();
            if got != want {
                bail!("set-contents", "set iterates {:?}, model holds {:?} (second component: tag of the instance stored first)", got, want);
            }
            let g = set.guard();
            let d = set.verif_map().verif_dump(&g);
            let hf = |kk: &TKey| hash_of(cfg.mode, kk.k);
            let (a, _) = inspect::audit(&d, Some(&hf), set.len(), set.is_empty());
            st.audits += 1;
            if !a.ok() {
                bail!("set-structure", "{}", a.failures.join("; "));
            }
        }
    }
    Ok(())
}
