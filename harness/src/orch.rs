//! Orchestration helpers: actors are threads whose progress is controlled through a `Gate`.
use crate::hook::{self, Gate};
use std::sync::atomic::{AtomicBool, Ordering};
use std::sync::Arc;
use std::thread::JoinHandle;

pub struct Actor {
    pub gate: Arc<Gate>,
    pub done: Arc<AtomicBool>,
    pub name: String,
    handle: Option<JoinHandle<Result<(), String>>>,
}

impl Actor {
    /// `arm` runs before the thread starts (arm the first freeze point there).
    pub fn spawn(name: &str, tid: u16, arm: impl FnOnce(&Gate), f: impl FnOnce() + Send + 'static) -> Actor {
        let gate = Gate::new();
        arm(&gate);
        let done = Arc::new(AtomicBool::new(false));
        let (g2, d2) = (gate.clone(), done.clone());
        let handle = std::thread::spawn(move || {
            hook::attach_gate(g2, tid);
            let r = crate::util::guarded(f);
            hook::detach_gate();
            d2.store(true, Ordering::SeqCst);
            r
        });
        Actor { gate, done, name: name.to_string(), handle: Some(handle) }
    }
    pub fn is_done(&self) -> bool {
        self.done.load(Ordering::SeqCst)
    }
    /// true = frozen at the armed point, false = the actor finished without reaching it.
    /// Err = neither happened within the limit (with the thread's scheduler state).
    pub fn wait_frozen_or_done(&self, limit_ms: u64) -> Result<bool, String> {
        let d = self.done.clone();
        if self.gate.wait_frozen(&move || d.load(Ordering::SeqCst), limit_ms) {
            return Ok(true);
        }
        if self.is_done() {
            return Ok(false);
        }
        Err(format!("actor {} neither reached its freeze point nor finished within {limit_ms} ms (thread state {})", self.name, self.thread_state()))
    }
    pub fn wait_done(&self, limit_ms: u64) -> Result<(), String> {
        let t0 = std::time::Instant::now();
        while !self.is_done() {
            if t0.elapsed().as_millis() as u64 > limit_ms {
                return Err(format!("actor {} did not finish within {limit_ms} ms (thread state {}, frozen {})", self.name, self.thread_state(), self.gate.is_frozen()));
            }
            std::thread::yield_now();
        }
        Ok(())
    }
    pub fn thread_state(&self) -> char {
        #[cfg(not(miri))]
        {
            let tid = self.gate.tid.load(Ordering::SeqCst);
            let s = std::fs::read_to_string(format!("/proc/self/task/{tid}/stat")).unwrap_or_default();
            return s.rsplit(')').next().and_then(|r| r.trim().chars().next()).unwrap_or('?');
        }
        #[cfg(miri)]
        '?'
    }
    pub fn join(mut self) -> Result<(), String> {
        match self.handle.take().unwrap().join() {
            Ok(r) => r,
            Err(_) => Err(format!("actor {} died", self.name)),
        }
    }
    /// Give up on an actor that is stuck: it is released and its thread detached.
    pub fn abandon(mut self) {
        self.gate.release();
        let _ = self.handle.take();
    }
}
