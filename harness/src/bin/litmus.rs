//! Litmus programs for Miri (C11: no deadlock / lost wakeup, C15: updates happen-before the
//! reads that observe them; also C03/C04: Miri reports use-after-free and leaks).
//!
//! The threads of a program communicate ONLY through the map: no ledger, no shared clock, no
//! channel — anything else would add happens-before edges that could hide a missing one inside
//! flurry. Keys and values carry heap payloads that are initialised right before they are stored
//! and are read (non-atomically) by whoever obtains them from the map; Miri's race detector
//! flags a read that is not ordered after the initialisation.
//!
//! usage: litmus <program> <hasher mode> <capacity> <prefill> <ops per thread>
//! prints `LITMUS-OK {json}` when the program ran to completion.
use flurry::HashMap;
use fv::hashers::HB;
use std::hash::{Hash, Hasher};
use std::sync::Arc;

#[derive(Debug)]
struct K {
    k: u64,
    /// [k, writer tag]
    pay: Box<[u64; 2]>,
}
impl Clone for K {
    fn clone(&self) -> K {
        // the map clones keys while moving bins: the clone reads the payload, too
        K { k: self.k, pay: Box::new([self.pay[0], self.pay[1]]) }
    }
}
impl PartialEq for K {
    fn eq(&self, o: &K) -> bool {
        self.k == o.k
    }
}
impl Eq for K {}
impl PartialOrd for K {
    fn partial_cmp(&self, o: &K) -> Option<std::cmp::Ordering> {
        Some(self.cmp(o))
    }
}
impl Ord for K {
    fn cmp(&self, o: &K) -> std::cmp::Ordering {
        self.k.cmp(&o.k)
    }
}
impl Hash for K {
    fn hash<H: Hasher>(&self, h: &mut H) {
        h.write_u64(self.k)
    }
}
fn key(k: u64, tag: u64) -> K {
    K { k, pay: Box::new([k, tag]) }
}
type V = Box<[u64; 4]>;
fn val(v: u64, tag: u64) -> V {
    Box::new([v, !v, tag, v ^ tag])
}

#[derive(Default, Clone, Copy)]
struct Stats {
    /// payloads written by another thread that this thread read, per retrieval path
    get: u64,
    get_kv: u64,
    iter: u64,
    keys: u64,
    values: u64,
    insert_old: u64,
    remove: u64,
    remove_entry: u64,
    compute_arg: u64,
    try_insert_current: u64,
    retain_arg: u64,
    sum: u64,
}
impl Stats {
    fn add(&mut self, o: &Stats) {
        self.get += o.get;
        self.get_kv += o.get_kv;
        self.iter += o.iter;
        self.keys += o.keys;
        self.values += o.values;
        self.insert_old += o.insert_old;
        self.remove += o.remove;
        self.remove_entry += o.remove_entry;
        self.compute_arg += o.compute_arg;
        self.try_insert_current += o.try_insert_current;
        self.retain_arg += o.retain_arg;
        self.sum = self.sum.wrapping_add(o.sum);
    }
    fn total(&self) -> u64 {
        self.get + self.get_kv + self.iter + self.keys + self.values + self.insert_old + self.remove + self.remove_entry + self.compute_arg + self.try_insert_current + self.retain_arg
    }
}

/// Reads the whole payload (this is the racy access if publication is broken) and says whether
/// another thread wrote it.
fn chk_v(v: &V, me: u64, s: &mut u64) -> bool {
    assert_eq!(v[0], !v[1], "torn or uninitialised value payload");
    assert_eq!(v[3], v[0] ^ v[2], "torn or uninitialised value payload");
    *s = s.wrapping_add(v[0]);
    // written by another worker thread (tag 0 = prefill by the main thread before the spawn)
    v[2] != me && v[2] != 0
}
fn chk_k(k: &K, me: u64, s: &mut u64) -> bool {
    assert_eq!(k.pay[0], k.k, "torn or uninitialised key payload");
    *s = s.wrapping_add(k.pay[0]);
    k.pay[1] != me && k.pay[1] != 0
}

type M = HashMap<K, V, HB>;

fn writer_a(m: &M, me: u64, span: u64, ops: u64) -> Stats {
    let mut st = Stats::default();
    for i in 0..ops {
        let g = m.guard();
        let k = (i * 3) % span;
        let v = 1000 * me + i;
        match i % 3 {
            0 => {
                if let Some(o) = m.insert(key(k, me), val(v, me), &g) {
                    st.insert_old += chk_v(o, me, &mut st.sum) as u64;
                }
            }
            1 => {
                if let Err(e) = m.try_insert(key(k + 1, me), val(v, me), &g) {
                    st.try_insert_current += chk_v(e.current, me, &mut st.sum) as u64;
                    let mut x = 0;
                    assert!(!chk_v(&e.not_inserted, me, &mut x), "refused value came back changed");
                }
            }
            _ => {
                let mut other = false;
                let mut sum = 0;
                m.compute_if_present(
                    &key(k, me),
                    |kk, c| {
                        other |= chk_k(kk, me, &mut sum);
                        other |= chk_v(c, me, &mut sum);
                        Some(val(c[0] + 1, me))
                    },
                    &g,
                );
                st.compute_arg += other as u64;
                st.sum = st.sum.wrapping_add(sum);
            }
        }
    }
    st
}

fn writer_b(m: &M, me: u64, span: u64, ops: u64) -> Stats {
    let mut st = Stats::default();
    for i in 0..ops {
        let g = m.guard();
        let k = (i * 5 + 1) % span;
        if i % 3 == 2 {
            // removal through compute_if_present (its own unlink code)
            let mut other = false;
            let mut sum = 0;
            m.compute_if_present(
                &key(k, me),
                |kk, c| {
                    other |= chk_k(kk, me, &mut sum);
                    other |= chk_v(c, me, &mut sum);
                    None
                },
                &g,
            );
            st.compute_arg += other as u64;
            st.sum = st.sum.wrapping_add(sum);
        } else if i % 3 == 0 {
            if let Some(o) = m.remove(&key(k, me), &g) {
                st.remove += chk_v(o, me, &mut st.sum) as u64;
            }
        } else if let Some((kk, o)) = m.remove_entry(&key(k, me), &g) {
            let a = chk_k(kk, me, &mut st.sum);
            let b = chk_v(o, me, &mut st.sum);
            st.remove_entry += (a || b) as u64;
        }
    }
    st
}

fn reader(m: &M, me: u64, span: u64, ops: u64) -> Stats {
    let mut st = Stats::default();
    for i in 0..ops {
        let g = m.guard();
        match i % 4 {
            0 => {
                if let Some(v) = m.get(&key(i % span, me), &g) {
                    st.get += chk_v(v, me, &mut st.sum) as u64;
                }
            }
            1 => {
                if let Some((kk, v)) = m.get_key_value(&key((i * 7) % span, me), &g) {
                    let a = chk_k(kk, me, &mut st.sum);
                    let b = chk_v(v, me, &mut st.sum);
                    st.get_kv += (a || b) as u64;
                }
            }
            2 => {
                for (kk, v) in m.iter(&g) {
                    let a = chk_k(kk, me, &mut st.sum);
                    let b = chk_v(v, me, &mut st.sum);
                    st.iter += (a || b) as u64;
                }
            }
            _ => {
                for kk in m.keys(&g) {
                    st.keys += chk_k(kk, me, &mut st.sum) as u64;
                }
                for v in m.values(&g) {
                    st.values += chk_v(v, me, &mut st.sum) as u64;
                }
            }
        }
    }
    st
}

fn maintainer(m: &M, me: u64, ops: u64) -> Stats {
    let mut st = Stats::default();
    for i in 0..(ops / 2).max(2) {
        let g = m.guard();
        let mut other = 0u64;
        let mut sum = 0u64;
        match i % 4 {
            0 => m.retain(
                |kk, v| {
                    other += (chk_k(kk, me, &mut sum) | chk_v(v, me, &mut sum)) as u64;
                    kk.k % 3 != 0
                },
                &g,
            ),
            1 => m.reserve(8 + i as usize * 8, &g),
            2 => m.retain_force(
                |kk, v| {
                    other += (chk_k(kk, me, &mut sum) | chk_v(v, me, &mut sum)) as u64;
                    kk.k % 5 != 0
                },
                &g,
            ),
            _ => m.clear(&g),
        }
        st.retain_arg += other;
        st.sum = st.sum.wrapping_add(sum);
    }
    st
}

/// grows the table through several generations while others read and write
fn grower(m: &M, me: u64, base: u64, ops: u64) -> Stats {
    let mut st = Stats::default();
    for i in 0..ops {
        let g = m.guard();
        if let Some(o) = m.insert(key(base + i, me), val(i, me), &g) {
            st.insert_old += chk_v(o, me, &mut st.sum) as u64;
        }
    }
    st
}

/// only point lookups (present and absent keys)
fn getter(m: &M, me: u64, span: u64, ops: u64) -> Stats {
    let mut st = Stats::default();
    for i in 0..ops {
        let g = m.guard();
        let k = (i * 7 + me) % (span + 2);
        if i % 3 == 0 {
            if let Some((kk, v)) = m.get_key_value(&key(k, me), &g) {
                let a = chk_k(kk, me, &mut st.sum);
                let b = chk_v(v, me, &mut st.sum);
                st.get_kv += (a || b) as u64;
            }
        } else if let Some(v) = m.get(&key(k, me), &g) {
            st.get += chk_v(v, me, &mut st.sum) as u64;
        }
    }
    st
}

fn main() {
    let a: Vec<String> = std::env::args().collect();
    if a.len() < 6 {
        eprintln!("usage: litmus <program> <mode> <cap> <prefill> <ops>");
        std::process::exit(2);
    }
    let prog = a[1].as_str();
    if prog == "seq" || prog == "seqset" {
        // single-threaded differential sequence under Miri (C02: UB that still returns the right
        // answer); args: mode cap universe steps seed
        let mode: u8 = a[2].parse().unwrap();
        let cfg = fv::seq::SeqCfg {
            mode,
            cap: a[3].parse().unwrap(),
            universe: a[4].parse().unwrap(),
            steps: a[5].parse().unwrap(),
            facade: 4,
            audit_every: 8,
            growth: false,
            cmp_bound: false,
            profile: if mode >= 2 { 1 } else { 0 },
            batch: 1,
            allow_replace_map: true,
        };
        let seed: u64 = a.get(6).and_then(|s| s.parse().ok()).unwrap_or(1);
        fv::hook::install();
        let mut rng = fv::util::Rng::new(seed);
        let mut st = fv::seq::SeqStats::default();
        let r = if prog == "seq" { fv::seq::run_seq(&cfg, &mut rng, &mut st) } else { fv::seq::run_seq_set(&cfg, &mut rng, &mut st) };
        if let Err(f) = r {
            panic!("sequence diverged from the reference: {} {}", f.sig, f.detail);
        }
        println!(
            "LITMUS-OK {{\"counters\":{{\"seq_steps\":{},\"seq_audits\":{},\"seq_treeify\":{},\"seq_resizes\":{}}},\"nontrivial\":{},\"sig\":\"{:x}\",\"seed_tag\":\"{}\",\"sample\":{{\"first_ops\":{:?}}}}}",
            st.steps, st.audits, st.treeify, st.resizes, st.resizes + st.treeify > 0, seed ^ (mode as u64) << 56, seed, st.trace.iter().take(8).collect::<Vec<_>>()
        );
        return;
    }
    let mode: u8 = a[2].parse().unwrap();
    let cap: usize = a[3].parse().unwrap();
    let pre: u64 = a[4].parse().unwrap();
    let ops: u64 = a[5].parse().unwrap();
    let map: M = if cap == 0 { HashMap::with_hasher(HB::new(mode)) } else { HashMap::with_capacity_and_hasher(cap, HB::new(mode)) };
    let m: Arc<M> = Arc::new(map.with_collector(seize::Collector::new().batch_size(1)));
    /// keys whose insertion into the tree built from 10, 20, .., 100 needs a double rotation
    /// (95), a single one (105), or none
    const ROT_NEW: [u64; 8] = [95, 105, 95, 85, 95, 5, 95, 45];
    if prog == "rotread" {
        // `pre` equal tree bins side by side (hasher mode `class`)
        let g = m.guard();
        for class in 0..pre {
            for ord in (1..=10u64).map(|i| i * 10) {
                m.insert(key(class * 1000 + ord, 0), val(ord, 0), &g);
            }
        }
    } else {
        let g = m.guard();
        for i in 0..pre {
            m.insert(key(i, 0), val(i, 0), &g);
        }
    }
    let span = pre + 6;
    let mut hs: Vec<std::thread::JoinHandle<Stats>> = Vec::new();
    macro_rules! spawn {
        ($f:expr) => {{
            let m = m.clone();
            hs.push(std::thread::spawn(move || $f(&m)));
        }};
    }
    match prog {
        // inserter/computer, remover, pure reader
        "mix3" => {
            spawn!(|m: &M| writer_a(m, 1, span, ops));
            spawn!(|m: &M| writer_b(m, 2, span, ops));
            spawn!(|m: &M| reader(m, 3, span, ops));
        }
        // + retain / retain_force / clear / reserve
        "mix4" => {
            spawn!(|m: &M| writer_a(m, 1, span, ops));
            spawn!(|m: &M| writer_b(m, 2, span, ops));
            spawn!(|m: &M| reader(m, 3, span, ops));
            spawn!(|m: &M| maintainer(m, 4, ops));
        }
        // two writers, two readers on one bin
        "readers" => {
            spawn!(|m: &M| writer_a(m, 1, span, ops));
            spawn!(|m: &M| reader(m, 2, span, ops));
            spawn!(|m: &M| reader(m, 3, span, ops));
            spawn!(|m: &M| writer_b(m, 4, span, ops));
        }
        // table initialisation race: every thread's first call hits the empty map
        "init" => {
            spawn!(|m: &M| grower(m, 1, 0, ops));
            spawn!(|m: &M| grower(m, 2, 100, ops));
            spawn!(|m: &M| { let g = m.guard(); m.reserve(3, &g); drop(g); reader(m, 3, 12, ops) });
            spawn!(|m: &M| writer_a(m, 4, 8, ops));
        }
        // growth through several generations under readers and a remover
        "grow" => {
            spawn!(|m: &M| grower(m, 1, 0, ops * 2));
            spawn!(|m: &M| grower(m, 2, 1000, ops * 2));
            spawn!(|m: &M| reader(m, 3, ops * 2, ops));
            spawn!(|m: &M| writer_b(m, 4, ops * 2, ops));
        }
        // lookups descending a tree bin while new leaves are linked in (no removals, so most
        // inserts need no root lock: the child-link store is the only publication on that path)
        "treeread" => {
            spawn!(|m: &M| grower(m, 1, pre, ops));
            spawn!(|m: &M| getter(m, 2, pre + ops, ops * 4));
            spawn!(|m: &M| getter(m, 3, pre + ops, ops * 4));
        }
        // a node that is re-published by an unlink: the bin is a list 0 -> 1 (prefill); the writer
        // appends a fresh node 2, removes the middle node 1 through compute_if_present, restores;
        // a reader that only ever looks for key 1 never follows 1.next, so the only way it reaches
        // the fresh node is the store that unlinked 1 (variants: remove and remove_entry as unlinkers)
        "unlink" => {
            spawn!(move |m: &M| {
                let mut st = Stats::default();
                let g = m.guard();
                for i in 0..ops {
                    m.insert(key(2, 1), val(2000 + i, 1), &g);
                    match i % 3 {
                        0 => {
                            m.compute_if_present(&key(1, 1), |_, _| None, &g);
                        }
                        1 => {
                            m.remove(&key(1, 1), &g);
                        }
                        _ => {
                            m.remove_entry(&key(1, 1), &g);
                        }
                    }
                    if let Some(o) = m.remove(&key(2, 1), &g) {
                        st.remove += chk_v(o, 1, &mut st.sum) as u64;
                    }
                    m.insert(key(1, 1), val(1000 + i, 1), &g);
                }
                st
            });
            for r in 0..2u64 {
                spawn!(move |m: &M| {
                    let me = 2 + r;
                    let mut st = Stats::default();
                    let g = m.guard();
                    for _ in 0..ops * 12 {
                        // key comparisons on the way read the payload-free part of every node passed;
                        // a hit reads the payloads
                        if let Some((kk, v)) = m.get_key_value(&key(1, me), &g) {
                            let a = chk_k(kk, me, &mut st.sum);
                            let b = chk_v(v, me, &mut st.sum);
                            st.get_kv += (a || b) as u64;
                        }
                    }
                    st
                });
            }
        }
        // one writer inserts, bin by bin, a key whose insertion rotates the tree; `ops` (1-3)
        // readers keep looking that key up in the bin the writer is about to change: a reader
        // that registered late walks links stored while the tree was write-locked
        "rotread" => {
            spawn!(move |m: &M| {
                let mut st = Stats::default();
                let g = m.guard();
                for class in 0..pre {
                    let k = class * 1000 + ROT_NEW[(class % 8) as usize];
                    if let Some(old) = m.insert(key(k, 1), val(k, 1), &g) {
                        st.insert_old += chk_v(old, 1, &mut st.sum) as u64;
                    }
                }
                st
            });
            for r in 0..ops.clamp(1, 3) {
                spawn!(move |m: &M| {
                    let me = 2 + r;
                    let mut st = Stats::default();
                    let g = m.guard();
                    for class in 0..pre {
                        let k = class * 1000 + ROT_NEW[(class % 8) as usize];
                        for _attempt in 0..100_000u64 {
                            if let Some((kk, v)) = m.get_key_value(&key(k, me), &g) {
                                let a = chk_k(kk, me, &mut st.sum);
                                let b = chk_v(v, me, &mut st.sum);
                                st.get_kv += (a || b) as u64;
                                break;
                            }
                        }
                    }
                    st
                });
            }
        }
        _ => {
            eprintln!("unknown program {prog}");
            std::process::exit(2);
        }
    }
    let mut tot = Stats::default();
    for h in hs {
        tot.add(&h.join().unwrap());
    }
    let len = m.len();
    // a final single-threaded walk (after join: ordered after everything)
    {
        let g = m.guard();
        let mut s = 0;
        let mut n = 0;
        for (kk, v) in m.iter(&g) {
            chk_k(kk, 99, &mut s);
            chk_v(v, 99, &mut s);
            n += 1;
        }
        assert_eq!(n, len, "len() disagrees with iteration at quiescence");
    }
    drop(m);
    println!(
        "LITMUS-OK {{\"counters\":{{\"cross_thread_get\":{},\"cross_thread_get_key_value\":{},\"cross_thread_iter\":{},\"cross_thread_keys\":{},\"cross_thread_values\":{},\"cross_thread_insert_old\":{},\"cross_thread_remove\":{},\"cross_thread_remove_entry\":{},\"cross_thread_compute_arg\":{},\"cross_thread_try_insert_current\":{},\"cross_thread_retain_arg\":{},\"cross_thread_reads\":{}}},\"nontrivial\":{},\"sig\":\"{:x}\",\"seed_tag\":\"{}\",\"sample\":{{\"final_len\":{},\"cross_thread_reads\":{}}}}}",
        tot.get, tot.get_kv, tot.iter, tot.keys, tot.values, tot.insert_old, tot.remove, tot.remove_entry, tot.compute_arg, tot.try_insert_current, tot.retain_arg, tot.total(),
        tot.total() > 0, tot.sum ^ (len as u64) << 48, tot.sum % 9973, len, tot.total()
    );
}
