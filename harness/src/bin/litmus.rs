fn main() {}
