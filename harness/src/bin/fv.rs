//! Worker: `fv <check> --tier quick|thorough --seed S --shard i --shards n [--budget-ms ms]`.
//! Prints progress to stderr and one line `RESULT {json}` to stdout.
use fv::checks::{dispatch, Ctx};
use fv::util::Args;

fn main() {
    let mut argv = std::env::args().skip(1);
    let name = argv.next().unwrap_or_default();
    let args = Args::parse(argv);
    if name == "selftest" {
        let mut fails = fv::wgl::selftest();
        fails.extend(fv::freerun::selftest_resize_monitor());
        fails.extend(fv::types::selftest_ledger());
        fails.extend(fv::inspect::selftest());
        for f in &fails {
            println!("SELFTEST-FAIL {f}");
        }
        println!("selftest: {} failure(s)", fails.len());
        std::process::exit(if fails.is_empty() { 0 } else { 2 });
    }
    let ctx = Ctx::from_args(args);
    match dispatch(&name, &ctx) {
        Some(out) => {
            println!("RESULT {}", out.to_json());
        }
        None => {
            eprintln!("unknown check {name}");
            std::process::exit(2);
        }
    }
}
