//! What a worker process reports back to the supervisor (one JSON object on the last line).
use crate::util::Json;
use std::collections::{BTreeMap, BTreeSet};

#[derive(Clone, Debug)]
pub struct Violation {
    /// stable signature (used to match known findings): check/scenario/failing input
    pub sig: String,
    pub detail: String,
    pub replay: Json,
}

#[derive(Clone, Debug, Default)]
pub struct Outcome {
    pub evaluations: u64,
    /// hashes of the distinct non-trivial cases (rule is stated by the check)
    pub distinct: BTreeSet<u64>,
    pub rule: String,
    pub samples: Vec<Json>,
    pub counters: BTreeMap<String, u64>,
    pub maxes: BTreeMap<String, f64>,
    pub violations: Vec<Violation>,
    pub inconclusive: Vec<String>,
    pub exhaustive: Option<bool>,
    pub lists: BTreeMap<String, BTreeSet<String>>,
}

impl Outcome {
    pub fn new(rule: &str) -> Outcome {
        Outcome { rule: rule.to_string(), ..Default::default() }
    }
    pub fn add(&mut self, k: &str, n: u64) {
        *self.counters.entry(k.to_string()).or_insert(0) += n;
    }
    pub fn max(&mut self, k: &str, x: f64) {
        let e = self.maxes.entry(k.to_string()).or_insert(f64::MIN);
        if x > *e {
            *e = x;
        }
    }
    pub fn list(&mut self, k: &str, v: impl Into<String>) {
        let s = self.lists.entry(k.to_string()).or_default();
        if s.len() < 256 {
            s.insert(v.into());
        }
    }
    pub fn sample(&mut self, j: Json) {
        if self.samples.len() < 4 {
            self.samples.push(j);
        }
    }
    pub fn violate(&mut self, sig: impl Into<String>, detail: impl Into<String>, replay: Json) {
        if self.violations.len() < 16 {
            self.violations.push(Violation { sig: sig.into(), detail: detail.into(), replay });
        }
    }
    pub fn to_json(&self) -> Json {
        let mut o = Json::obj();
        o.set("evaluations", Json::UInt(self.evaluations));
        o.set("rule", Json::s(self.rule.clone()));
        o.set(
            "distinct",
            Json::Arr(self.distinct.iter().take(200_000).map(|h| Json::s(format!("{h:016x}"))).collect()),
        );
        o.set("distinct_total", Json::UInt(self.distinct.len() as u64));
        o.set("samples", Json::Arr(self.samples.clone()));
        let mut c = Json::obj();
        for (k, v) in &self.counters {
            c.set(k, Json::UInt(*v));
        }
        o.set("counters", c);
        let mut m = Json::obj();
        for (k, v) in &self.maxes {
            m.set(k, Json::Float(*v));
        }
        o.set("maxes", m);
        let mut l = Json::obj();
        for (k, v) in &self.lists {
            l.set(k, Json::Arr(v.iter().map(|s| Json::s(s.clone())).collect()));
        }
        o.set("lists", l);
        o.set(
            "violations",
            Json::Arr(
                self.violations
                    .iter()
                    .map(|v| {
                        Json::obj()
                            .with("sig", Json::s(v.sig.clone()))
                            .with("detail", Json::s(v.detail.clone()))
                            .with("replay", v.replay.clone())
                    })
                    .collect(),
            ),
        );
        o.set("inconclusive", Json::Arr(self.inconclusive.iter().map(|s| Json::s(s.clone())).collect()));
        if let Some(e) = self.exhaustive {
            o.set("exhaustive", Json::Bool(e));
        }
        o
    }
}
