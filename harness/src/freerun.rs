//! Free-run engine: real threads hammer one fresh map for a short round with delays injected
//! at hook sites; every call is recorded at the client boundary; after the join the quiescent
//! audits run, the map is dropped and the ledger is audited.
use crate::api::*;
use crate::hashers::{hash_of, HB};
use crate::hook::{self, EventRec};
use crate::inspect;
use crate::types::*;
use crate::util::*;
use crate::wgl::{Ev, Op};
use flurry::verif as fvf;
use std::collections::{BTreeMap, BTreeSet, HashMap as StdMap};
use std::sync::{Arc, Barrier};

#[derive(Clone, Debug)]
pub struct Mix {
    pub get: u32,
    pub get_kv: u32,
    pub contains: u32,
    pub insert: u32,
    pub try_insert: u32,
    pub remove: u32,
    pub remove_entry: u32,
    pub compute_some: u32,
    pub compute_none: u32,
    pub compute_cond: u32,
    /// background operations (not per-key; enter the history as pseudo-ops or not at all)
    pub retain: u32,
    pub retain_force: u32,
    pub clear: u32,
    pub reserve: u32,
    pub iterate: u32,
    /// compute_if_present whose closure panics (caught by the worker; must leave the entry as it was)
    pub panic_compute: u32,
    /// retain / retain_force whose predicate panics at its j-th call (caught by the worker)
    pub panic_retain: u32,
}

/// payload of the panics the workers inject into callbacks
pub struct InjectedPanic;

impl Mix {
    pub fn standard() -> Mix {
        Mix { get: 22, get_kv: 5, contains: 5, insert: 25, try_insert: 10, remove: 14, remove_entry: 5, compute_some: 6, compute_none: 3, compute_cond: 3, retain: 0, retain_force: 0, clear: 0, reserve: 1, iterate: 1, panic_compute: 0, panic_retain: 0 }
    }
    fn total(&self) -> u32 {
        self.get + self.get_kv + self.contains + self.insert + self.try_insert + self.remove + self.remove_entry + self.compute_some + self.compute_none + self.compute_cond + self.retain + self.retain_force + self.clear + self.reserve + self.iterate + self.panic_compute + self.panic_retain
    }
}

#[derive(Clone, Debug)]
pub struct RoundCfg {
    pub mode: u8,
    pub cap: usize,
    pub nkeys: u64,
    /// keys [nkeys, nkeys + stable) are prefilled and never written during the round
    pub stable: u64,
    pub prefill: u64,
    pub threads: usize,
    pub ops: usize,
    pub batch: usize,
    pub mix: Mix,
    pub set_facade: bool,
    pub delay_level: usize,
    pub focus_site: u32,
    pub iter_threads: usize,
    pub holder_threads: usize,
    pub record_events: bool,
    /// keys written by thread t are restricted to k % threads == t (disjoint) when set
    pub disjoint: bool,
    /// the i-th call of thread t uses the never-used key prefill + i * threads + t
    pub fresh_keys: bool,
}

impl RoundCfg {
    pub fn to_json(&self) -> Json {
        Json::obj()
            .with("hasher", Json::s(crate::hashers::mode_name(self.mode)))
            .with("cap", Json::u(self.cap))
            .with("keys", Json::u(self.nkeys))
            .with("stable_keys", Json::u(self.stable))
            .with("prefill", Json::u(self.prefill))
            .with("threads", Json::u(self.threads))
            .with("ops_per_thread", Json::u(self.ops))
            .with("collector_batch", Json::u(self.batch))
            .with("set_facade", Json::Bool(self.set_facade))
            .with("delay_level", Json::u(self.delay_level))
            .with("focus_site", Json::u(self.focus_site))
            .with("iter_threads", Json::u(self.iter_threads))
            .with("holder_threads", Json::u(self.holder_threads))
    }
}

#[derive(Clone, Debug, Default)]
pub struct IterRec {
    pub thread: u16,
    pub kind: u8,
    pub created: u64,
    pub ended: u64,
    /// (key, value id, ticket after the yield)
    pub yields: Vec<(u64, u64, u64)>,
    pub aborted: bool,
}

#[derive(Debug, Default)]
pub struct RoundResult {
    pub history: Vec<Ev>,
    pub prefill: BTreeMap<u64, u64>,
    pub events: Vec<EventRec>,
    pub signature: u64,
    pub audit_failures: Vec<String>,
    pub agreement_failures: Vec<String>,
    pub audit: inspect::Audit,
    pub ledger: LedgerReport,
    pub iters: Vec<IterRec>,
    pub corrupt: Vec<String>,
    pub panics: Vec<String>,
    pub held_refs: u64,
    pub held_survived_retire: u64,
    pub held_failures: Vec<String>,
    pub final_len: usize,
    /// element counter and size_ctl at quiescence
    pub final_count: isize,
    pub final_size_ctl: isize,
    pub cap_exceeded: bool,
}

fn uniq(tid: usize, ctr: &mut u64) -> u64 {
    *ctr += 1;
    ((tid as u64 + 1) << 32) | *ctr
}

enum AnyMap {
    Map(Map),
    Set(crate::seq::Set),
}

/// workers of the current round that have arrived at the tight start (rounds run one at a time)
static SPIN_START: std::sync::atomic::AtomicUsize = std::sync::atomic::AtomicUsize::new(0);

fn worker(m: &AnyMap, cfg: &RoundCfg, tid: usize, seed: u64, bar: &Barrier) -> (Vec<Ev>, Vec<IterRec>) {
    hook::set_role(hook::ROLE_DELAY, tid as u16, seed);
    let mut rng = Rng::new(seed);
    let mut evs: Vec<Ev> = Vec::with_capacity(cfg.ops + 8);
    let mut iters = Vec::new();
    let mut ctr = 0u64;
    let total = cfg.mix.total() as u64;
    let facade = rng.below(4) as u8;
    bar.wait();
    if cfg.fresh_keys {
        // a tight start: the OS barrier releases threads microseconds apart, this spin barrier
        // within tens of nanoseconds (the workers of such a round make one call each)
        SPIN_START.fetch_add(1, std::sync::atomic::Ordering::SeqCst);
        let t0 = std::time::Instant::now();
        while SPIN_START.load(std::sync::atomic::Ordering::SeqCst) < cfg.threads && t0.elapsed().as_millis() < 200 {
            std::hint::spin_loop();
        }
    }
    match m {
        AnyMap::Map(map) => {
            let long_guard = map.guard();
            let api = Api { map, facade, guard: &long_guard };
            for opi in 0..cfg.ops {
                let mut key = rng.below(cfg.nkeys);
                if cfg.fresh_keys {
                    key = cfg.prefill + (opi * cfg.threads + tid) as u64;
                } else if cfg.disjoint {
                    key = key - key % cfg.threads as u64 + tid as u64;
                    if key >= cfg.nkeys {
                        key = tid as u64;
                    }
                }
                let mut w = rng.below(total) as u32;
                let mx = &cfg.mix;
                macro_rules! pick {
                    ($f:expr) => {{
                        if w < $f {
                            true
                        } else {
                            w -= $f;
                            false
                        }
                    }};
                }
                let t = tid as u16;
                if pick!(mx.get) {
                    let call = tick();
                    let res = api.get(key);
                    let ret = tick();
                    evs.push(Ev { thread: t, key, op: Op::Get { res }, call, ret });
                } else if pick!(mx.get_kv) {
                    let call = tick();
                    let r = api.get_key_value(key);
                    let ret = tick();
                    let res = r.map(|x| x.v);
                    if let Some(x) = r {
                        if x.k != key {
                            evs.push(Ev { thread: t, key, op: Op::Get { res: Some(u64::MAX) }, call, ret });
                            continue;
                        }
                    }
                    evs.push(Ev { thread: t, key, op: Op::Get { res }, call, ret });
                } else if pick!(mx.contains) {
                    let call = tick();
                    let res = api.contains_key(key);
                    let ret = tick();
                    evs.push(Ev { thread: t, key, op: Op::Contains { res }, call, ret });
                } else if pick!(mx.insert) {
                    let v = uniq(tid, &mut ctr);
                    let call = tick();
                    let old = api.insert(key, tid as u32, v);
                    let ret = tick();
                    evs.push(Ev { thread: t, key, op: Op::Insert { v, old }, call, ret });
                } else if pick!(mx.try_insert) {
                    let v = uniq(tid, &mut ctr);
                    let call = tick();
                    let r = api.try_insert(key, tid as u32, v);
                    let ret = tick();
                    let op = match r {
                        Ok(_) => Op::TryInsert { v, ok: true, cur: None },
                        Err((cur, intact)) => Op::TryInsert { v, ok: false, cur: if intact { Some(cur) } else { Some(u64::MAX - 1) } },
                    };
                    evs.push(Ev { thread: t, key, op, call, ret });
                } else if pick!(mx.remove) {
                    let call = tick();
                    let res = api.remove(key);
                    let ret = tick();
                    evs.push(Ev { thread: t, key, op: Op::Remove { res }, call, ret });
                } else if pick!(mx.remove_entry) {
                    let call = tick();
                    let r = api.remove_entry(key);
                    let ret = tick();
                    let res = r.map(|x| if x.k == key { x.v } else { u64::MAX });
                    evs.push(Ev { thread: t, key, op: Op::Remove { res }, call, ret });
                } else if pick!(mx.compute_some) || pick!(mx.compute_none) || pick!(mx.compute_cond) {
                    let v = uniq(tid, &mut ctr);
                    let variant = v % 3;
                    let mut out: Option<u64> = None;
                    let call = tick();
                    let r = api.compute(key, |_k, cur| {
                        let o = match variant {
                            0 => Some(v),
                            1 => None,
                            _ => {
                                if cur & 1 == 0 {
                                    Some(v)
                                } else {
                                    None
                                }
                            }
                        };
                        out = o;
                        o
                    });
                    let ret = tick();
                    let saw = r.saw.map(|s| if s.k == key { s.v } else { u64::MAX });
                    // more than one closure call is reported as an impossible observation
                    let saw = if r.calls > 1 { Some(u64::MAX) } else { saw };
                    evs.push(Ev { thread: t, key, op: Op::Compute { saw, out, res: r.res }, call, ret });
                } else if pick!(mx.panic_compute) {
                    // the closure panics: the panic must reach us, the entry must stay as it was.
                    // recorded as a read of what the closure was shown (or of absence)
                    let mut seen: Option<u64> = None;
                    let call = tick();
                    crate::util::QUIET_PANICS.with(|q| q.set(true));
                    let r = std::panic::catch_unwind(std::panic::AssertUnwindSafe(|| {
                        api.compute(key, |k, cur| -> Option<u64> {
                            seen = Some(if k == key { cur } else { u64::MAX });
                            std::panic::panic_any(InjectedPanic)
                        })
                    }));
                    crate::util::QUIET_PANICS.with(|q| q.set(false));
                    let ret = tick();
                    match r {
                        Ok(c) if c.calls == 0 && c.res.is_none() => evs.push(Ev { thread: t, key, op: Op::Get { res: None }, call, ret }),
                        // the closure ran and yet the call returned normally: the panic was swallowed
                        Ok(_) => evs.push(Ev { thread: t, key, op: Op::Get { res: Some(u64::MAX) }, call, ret }),
                        Err(p) if p.is::<InjectedPanic>() => evs.push(Ev { thread: t, key, op: Op::Get { res: seen }, call, ret }),
                        Err(p) => std::panic::resume_unwind(p),
                    }
                } else if pick!(mx.panic_retain) {
                    let force = rng.chance(1, 2);
                    let at = rng.range(1, 6);
                    let m3 = rng.range(2, 4);
                    let r3 = rng.below(m3);
                    let mut calls = 0u64;
                    let mut verdicts: Vec<(u64, u64, u64)> = Vec::new();
                    let nkeys = cfg.nkeys;
                    let pred = |k: u64, v: u64| {
                        calls += 1;
                        if calls == at {
                            std::panic::panic_any(InjectedPanic)
                        }
                        let keep = k >= nkeys || k % m3 != r3;
                        if !keep {
                            verdicts.push((k, v, tick()));
                        }
                        keep
                    };
                    crate::util::QUIET_PANICS.with(|q| q.set(true));
                    let r = std::panic::catch_unwind(std::panic::AssertUnwindSafe(|| if force { api.retain_force(pred) } else { api.retain(pred) }));
                    crate::util::QUIET_PANICS.with(|q| q.set(false));
                    let ret = tick();
                    if let Err(p) = r {
                        if !p.is::<InjectedPanic>() {
                            std::panic::resume_unwind(p);
                        }
                    }
                    for (k, v, at) in verdicts {
                        evs.push(Ev { thread: t, key: k, op: if force { Op::ForceRemove } else { Op::CondRemove { v } }, call: at, ret });
                    }
                } else if pick!(mx.retain) || pick!(mx.retain_force) {
                    let force = rng.chance(mx.retain_force as u64, (mx.retain + mx.retain_force).max(1) as u64);
                    let m3 = rng.range(2, 4);
                    let r3 = rng.below(m3);
                    let mut verdicts: Vec<(u64, u64, u64)> = Vec::new();
                    let nkeys = cfg.nkeys;
                    let pred = |k: u64, v: u64| {
                        // stable keys are always kept
                        let keep = k >= nkeys || k % m3 != r3;
                        if !keep {
                            verdicts.push((k, v, tick()));
                        }
                        keep
                    };
                    if force {
                        api.retain_force(pred)
                    } else {
                        api.retain(pred)
                    }
                    let ret = tick();
                    for (k, v, at) in verdicts {
                        evs.push(Ev { thread: t, key: k, op: if force { Op::ForceRemove } else { Op::CondRemove { v } }, call: at, ret });
                    }
                } else if pick!(mx.clear) {
                    // `clear` would also remove the stable keys; it is only enabled in rounds
                    // without stable keys
                    let call = tick();
                    api.clear();
                    let ret = tick();
                    for k in 0..cfg.nkeys {
                        evs.push(Ev { thread: t, key: k, op: Op::MaybeRemove, call, ret });
                    }
                } else if pick!(mx.reserve) {
                    api.reserve(*rng.pick(&[1usize, 8, 40, 100, 300]));
                } else {
                    // iterate
                    let kind = rng.below(3) as u8;
                    iters.push(iterate(map, t, kind, cfg));
                }
            }
        }
        AnyMap::Set(set) => {
            let g = set.guard();
            for _ in 0..cfg.ops {
                let key = rng.below(cfg.nkeys);
                let w = rng.below(100);
                let pinned = rng.chance(1, 2);
                let t = tid as u16;
                let call = tick();
                let op = match w {
                    0..=24 => Op::Contains { res: if pinned { set.pin().contains(&KQ(key)) } else { set.contains(&KQ(key), &g) } },
                    25..=34 => Op::Contains { res: set.get(&KQ(key), &g).map(|k| { k.verify(); k.k == key }).unwrap_or(false) },
                    35..=69 => Op::SetInsert { res: if pinned { set.pin().insert(TKey::new(key, tid as u32)) } else { set.insert(TKey::new(key, tid as u32), &g) } },
                    70..=89 => Op::SetRemove { res: if pinned { set.pin().remove(&KQ(key)) } else { set.remove(&KQ(key), &g) } },
                    _ => Op::SetRemove { res: set.take(&KQ(key), &g).map(|k| { k.verify(); k.k == key }).unwrap_or(false) },
                };
                let ret = tick();
                evs.push(Ev { thread: t, key, op, call, ret });
            }
        }
    }
    hook::set_role(hook::ROLE_NONE, 0, 0);
    (evs, iters)
}

/// One full iteration with yield tickets. `kind`: 0 iter, 1 keys, 2 values.
pub fn iterate(map: &Map, thread: u16, kind: u8, cfg: &RoundCfg) -> IterRec {
    let g = map.guard();
    let cap = 4 * (cfg.threads as u64 * cfg.ops as u64 + cfg.prefill + cfg.stable + cfg.nkeys) + 64;
    let mut rec = IterRec { thread, kind, ..Default::default() };
    rec.created = tick();
    match kind {
        0 => {
            for (k, v) in map.iter(&g) {
                k.verify();
                rec.yields.push((k.k, v.get(), tick()));
                if rec.yields.len() as u64 > cap {
                    rec.aborted = true;
                    break;
                }
            }
        }
        1 => {
            for k in map.keys(&g) {
                k.verify();
                rec.yields.push((k.k, u64::MAX, tick()));
                if rec.yields.len() as u64 > cap {
                    rec.aborted = true;
                    break;
                }
            }
        }
        _ => {
            for v in map.values(&g) {
                rec.yields.push((u64::MAX, v.get(), tick()));
                if rec.yields.len() as u64 > cap {
                    rec.aborted = true;
                    break;
                }
            }
        }
    }
    rec.ended = tick();
    rec
}

fn iter_thread(map: &Map, cfg: &RoundCfg, tid: usize, seed: u64, bar: &Barrier, stop: &std::sync::atomic::AtomicBool) -> Vec<IterRec> {
    hook::set_role(hook::ROLE_DELAY, tid as u16, seed);
    let mut rng = Rng::new(seed);
    let mut v = Vec::new();
    bar.wait();
    loop {
        v.push(iterate(map, tid as u16, rng.below(3) as u8, cfg));
        if stop.load(std::sync::atomic::Ordering::Relaxed) || v.len() > 400 {
            break;
        }
    }
    hook::set_role(hook::ROLE_NONE, 0, 0);
    v
}

#[derive(Default)]
struct HolderStats {
    held: u64,
    survived: u64,
    failures: Vec<String>,
}

/// Keeps references obtained under one guard for a while, re-reads them just before the guard
/// is released, with ledger leases in between.
fn holder_thread(map: &Map, cfg: &RoundCfg, tid: usize, seed: u64, bar: &Barrier, stop: &std::sync::atomic::AtomicBool) -> HolderStats {
    hook::set_role(hook::ROLE_DELAY, tid as u16, seed);
    let mut rng = Rng::new(seed);
    let mut st = HolderStats::default();
    let mut ctr = 0u64;
    let led = ledger();
    bar.wait();
    let mut rounds = 0;
    while !stop.load(std::sync::atomic::Ordering::Relaxed) && rounds < 2000 {
        rounds += 1;
        let mut guard = map.guard();
        for _phase in 0..2 {
            {
                let g = &guard;
                // (reference, id, payload) snapshots; keys and values
                let mut vals: Vec<(&TVal, u64, u64)> = Vec::new();
                let mut keys: Vec<(&TKey, u64, u64)> = Vec::new();
                let n = rng.range(1, 12);
                for _ in 0..n {
                    let k = rng.below(cfg.nkeys + cfg.stable);
                    match rng.below(10) {
                        9 => {
                            // a clone taken while writers keep changing (and growing) the source
                            if rng.chance(1, 6) && std::env::var_os("FV_NO_HOLDER_CLONE").is_none() {
                                let c = map.clone();
                                let cg = c.guard();
                                for (kk, v) in c.iter(&cg).take(8) {
                                    kk.verify();
                                    v.verify();
                                }
                            }
                        }
                        0 | 1 => {
                            if let Some(v) = map.get(&KQ(k), g) {
                                vals.push((v, v.id, v.v));
                            }
                        }
                        2 => {
                            if let Some((kk, v)) = map.get_key_value(&KQ(k), g) {
                                keys.push((kk, kk.id, kk.k));
                                vals.push((v, v.id, v.v));
                            }
                        }
                        3 => {
                            for (kk, v) in map.iter(g).take(rng.range(1, 6) as usize) {
                                keys.push((kk, kk.id, kk.k));
                                vals.push((v, v.id, v.v));
                            }
                        }
                        4 => {
                            for kk in map.keys(g).skip(rng.below(4) as usize).take(3) {
                                keys.push((kk, kk.id, kk.k));
                            }
                            for v in map.values(g).skip(rng.below(4) as usize).take(3) {
                                vals.push((v, v.id, v.v));
                            }
                        }
                        5 if k < cfg.nkeys => {
                            // the old value returned by insert stays readable
                            let nv = uniq(tid, &mut ctr);
                            if let Some(old) = map.insert(TKey::new(k, tid as u32), TVal::new(nv), g) {
                                vals.push((old, old.id, old.v));
                            }
                        }
                        6 if k < cfg.nkeys => {
                            if rng.chance(1, 2) {
                                if let Some(old) = map.remove(&KQ(k), g) {
                                    vals.push((old, old.id, old.v));
                                }
                            } else if let Some((kk, old)) = map.remove_entry(&KQ(k), g) {
                                keys.push((kk, kk.id, kk.k));
                                vals.push((old, old.id, old.v));
                            }
                        }
                        7 if k < cfg.nkeys => {
                            let nv = uniq(tid, &mut ctr);
                            if let Some(new) = map.compute_if_present(&KQ(k), |_, _| Some(TVal::new(nv)), g) {
                                vals.push((new, new.id, new.v));
                            }
                        }
                        8 if k < cfg.nkeys => {
                            let nv = uniq(tid, &mut ctr);
                            match map.try_insert(TKey::new(k, tid as u32), TVal::new(nv), g) {
                                Ok(v) => vals.push((v, v.id, v.v)),
                                Err(e) => vals.push((e.current, e.current.id, e.current.v)),
                            }
                        }
                        _ => {}
                    }
                }
                for (_, id, _) in &vals {
                    led.lease(*id);
                }
                for (_, id, _) in &keys {
                    led.lease(*id);
                }
                // let writers retire what we hold
                match rng.below(4) {
                    0 => std::thread::yield_now(),
                    1 => {
                        for _ in 0..rng.below(3000) {
                            std::hint::spin_loop();
                        }
                    }
                    #[cfg(not(miri))]
                    2 => std::thread::sleep(std::time::Duration::from_micros(rng.range(20, 300))),
                    _ => {}
                }
                if rng.chance(1, 4) {
                    g.flush();
                }
                // re-read everything just before the guard is released
                for (r, id, v) in &vals {
                    st.held += 1;
                    if !r.verify() || r.id != *id || r.v != *v {
                        if st.failures.len() < 4 {
                            st.failures.push(format!("value reference (id {id}, payload {v:#x}) changed while its guard was alive: now id {} payload {:#x}", r.id, r.v));
                        }
                    }
                    if map.get(&KQ(0), g).map(|x| x.id) != Some(*id) {
                        // cheap proxy: count references whose entry is no longer what the map holds
                    }
                    if led.is_live(*id) == Some(false) {
                        // already destroyed although we hold a lease: reported by the ledger too
                        if st.failures.len() < 4 {
                            st.failures.push(format!("value id {id} was destroyed while a guard that observed it is alive"));
                        }
                    }
                }
                for (r, id, k) in &keys {
                    st.held += 1;
                    if !r.verify() || r.id != *id || r.k != *k {
                        if st.failures.len() < 4 {
                            st.failures.push(format!(
                                "key reference (id {id}, key {k}) obtained under a guard that is still alive no longer reads as that key: now id {} key {}{}",
                                r.id,
                                r.k,
                                if led.is_live(*id) == Some(false) { " (the ledger says this key instance has been dropped: its memory was reclaimed under the guard)" } else { "" }
                            ));
                        }
                    }
                }
                // how many of the held values have been replaced / removed meanwhile
                for (_, id, _) in &vals {
                    // a value we still hold but that no lookup returns any more survived its retirement
                    let _ = id;
                }
                st.survived += vals.len() as u64;
                for (_, id, _) in &vals {
                    led.release(*id);
                }
                for (_, id, _) in &keys {
                    led.release(*id);
                }
            }
            if rng.chance(1, 2) {
                guard.refresh();
            } else {
                break;
            }
        }
        drop(guard);
    }
    hook::set_role(hook::ROLE_NONE, 0, 0);
    st
}

/// Runs one round. Everything random derives from `seed`.
pub fn run_round(cfg: &RoundCfg, seed: u64) -> RoundResult {
    let mut res = RoundResult::default();
    mark(&format!("freerun round seed={seed:#x} {}", cfg.to_json()));
    hook::set_delay_level(cfg.delay_level);
    hook::set_focus_site(cfg.focus_site);
    let _ = hook::signature_take();
    let _ = hook::events_take();
    hook::events_enable(cfg.record_events || cfg.mix.clear > 0);
    ledger().reset();
    let _ = corrupt_take();
    let collector = seize::Collector::new().batch_size(cfg.batch.max(1));
    let am = if cfg.set_facade {
        let s = if cfg.cap == 0 { crate::seq::Set::with_hasher(HB::new(cfg.mode)) } else { crate::seq::Set::with_capacity_and_hasher(cfg.cap, HB::new(cfg.mode)) };
        AnyMap::Set(s)
    } else {
        let m = if cfg.cap == 0 { Map::with_hasher(HB::new(cfg.mode)) } else { Map::with_capacity_and_hasher(cfg.cap, HB::new(cfg.mode)) };
        AnyMap::Map(m.with_collector(collector))
    };
    // prefill: keys 0..prefill (writable) and the stable keys
    let mut pctr = 0u64;
    match &am {
        AnyMap::Map(map) => {
            let g = map.guard();
            let mut rng = Rng::new(seed ^ 0xF111);
            let mut pk: Vec<u64> = (0..cfg.nkeys).collect();
            rng.shuffle(&mut pk);
            for &k in pk.iter().take(cfg.prefill as usize) {
                pctr += 1;
                map.insert(TKey::new(k, 0), TVal::new(pctr), &g);
                res.prefill.insert(k, pctr);
            }
            for k in cfg.nkeys..cfg.nkeys + cfg.stable {
                pctr += 1;
                map.insert(TKey::new(k, 0), TVal::new(pctr), &g);
                res.prefill.insert(k, pctr);
            }
        }
        AnyMap::Set(set) => {
            let g = set.guard();
            for k in 0..cfg.prefill.min(cfg.nkeys) {
                set.insert(TKey::new(k, 0), &g);
                res.prefill.insert(k, 0);
            }
        }
    }
    let am = Arc::new(am);
    let nthreads = cfg.threads + cfg.iter_threads + cfg.holder_threads;
    let bar = Arc::new(Barrier::new(nthreads));
    SPIN_START.store(0, std::sync::atomic::Ordering::SeqCst);
    let stop = Arc::new(std::sync::atomic::AtomicBool::new(false));
    let cfg_a = Arc::new(cfg.clone());
    let mut workers = Vec::new();
    for t in 0..cfg.threads {
        let (am, bar, cfg) = (am.clone(), bar.clone(), cfg_a.clone());
        let s = splitmix(seed ^ (t as u64 + 1).wrapping_mul(0x9E37));
        workers.push(std::thread::spawn(move || guarded(|| worker(&am, &cfg, t, s, &bar))));
    }
    let mut iter_handles = Vec::new();
    for t in 0..cfg.iter_threads {
        let (am, bar, cfg, stop) = (am.clone(), bar.clone(), cfg_a.clone(), stop.clone());
        let s = splitmix(seed ^ (t as u64 + 101).wrapping_mul(0x7F4A));
        let tid = cfg.threads + t;
        iter_handles.push(std::thread::spawn(move || {
            guarded(|| match &*am {
                AnyMap::Map(m) => iter_thread(m, &cfg, tid, s, &bar, &stop),
                AnyMap::Set(_) => {
                    bar.wait();
                    Vec::new()
                }
            })
        }));
    }
    let mut holder_handles = Vec::new();
    for t in 0..cfg.holder_threads {
        let (am, bar, cfg, stop) = (am.clone(), bar.clone(), cfg_a.clone(), stop.clone());
        let s = splitmix(seed ^ (t as u64 + 201).wrapping_mul(0x51ED));
        let tid = cfg.threads + cfg.iter_threads + t;
        holder_handles.push(std::thread::spawn(move || {
            guarded(|| match &*am {
                AnyMap::Map(m) => holder_thread(m, &cfg, tid, s, &bar, &stop),
                AnyMap::Set(_) => {
                    bar.wait();
                    HolderStats::default()
                }
            })
        }));
    }
    for h in workers {
        match h.join() {
            Ok(Ok((evs, its))) => {
                res.history.extend(evs);
                res.iters.extend(its);
            }
            Ok(Err(p)) => res.panics.push(p),
            Err(_) => res.panics.push("worker thread died".into()),
        }
    }
    stop.store(true, std::sync::atomic::Ordering::SeqCst);
    for h in iter_handles {
        match h.join() {
            Ok(Ok(its)) => res.iters.extend(its),
            Ok(Err(p)) => res.panics.push(p),
            Err(_) => res.panics.push("iterator thread died".into()),
        }
    }
    for h in holder_handles {
        match h.join() {
            Ok(Ok(hs)) => {
                res.held_refs += hs.held;
                res.held_survived_retire += hs.survived;
                res.held_failures.extend(hs.failures);
            }
            Ok(Err(p)) => res.panics.push(p),
            Err(_) => res.panics.push("holder thread died".into()),
        }
    }
    hook::events_enable(false);
    res.events = hook::events_take();
    res.signature = hook::signature_take();
    // `clear` restarts from the first bin of the successor table whenever it meets a forwarding
    // marker, so one call may remove the same key once per table it walks: one extra
    // may-remove pseudo-op per resize generation that overlaps the call.
    if cfg.mix.clear > 0 {
        let mut gens: Vec<(u64, u64)> = Vec::new(); // (initiated ticket, published ticket)
        let mut open: StdMap<usize, u64> = StdMap::new();
        let mut evs: Vec<&EventRec> = res.events.iter().collect();
        evs.sort_by_key(|e| e.ticket);
        for e in evs {
            if e.site == fvf::EV_RESIZE_BEGIN {
                open.insert(e.a, e.ticket);
            } else if e.site == fvf::EV_TABLE_PUBLISHED {
                if let Some(i) = open.remove(&e.a) {
                    gens.push((i, e.ticket));
                }
            }
        }
        for (_, i) in open {
            gens.push((i, u64::MAX));
        }
        // Moreover a `clear` that has moved on to the successor table empties new bins that the
        // transfer has already filled but not yet made current (the old bin is forwarded only
        // afterwards): lookups keep finding such an entry in the old bin until the forwarding
        // marker is stored, i.e. possibly AFTER clear has returned. `clear` is not one of the
        // per-key operations whose linearizability C01 states, so its optional removals are
        // allowed to take effect until the resize generations it overlapped have been published.
        let mut extra = Vec::new();
        for e in res.history.iter_mut() {
            if let Op::MaybeRemove = e.op {
                let over: Vec<&(u64, u64)> = gens.iter().filter(|(i, p)| *i <= e.ret && *p >= e.call).collect();
                if let Some(p) = over.iter().map(|g| g.1).max() {
                    e.ret = e.ret.max(p);
                }
                for _ in 0..over.len() {
                    extra.push(*e);
                }
            }
        }
        res.history.extend(extra);
    }
    if !res.panics.is_empty() {
        // the map may be in an arbitrary state: leak it rather than risk a hang in drop
        std::mem::forget(am);
        return res;
    }
    // ---- quiescent point: final reads, audits
    match &*am {
        AnyMap::Map(map) => {
            let g = map.guard();
            let api = Api { map, facade: 0, guard: &g };
            for k in 0..cfg.nkeys + cfg.stable {
                let call = tick();
                let r = api.get(k);
                let ret = tick();
                res.history.push(Ev { thread: 999, key: k, op: Op::Get { res: r }, call, ret });
            }
            let d = map.verif_dump(&g);
            let hf = |k: &TKey| hash_of(cfg.mode, k.k);
            let (a, entries) = inspect::audit(&d, Some(&hf), map.len(), map.is_empty());
            res.audit_failures = a.failures.clone();
            res.final_len = d.len;
            res.final_count = d.count;
            res.final_size_ctl = d.size_ctl;
            // public agreement: iter = keys = values = successful gets = len
            let mut it = api.iter();
            it.sort_by_key(|e| e.k);
            let mut ks: Vec<u64> = api.keys().iter().map(|x| x.0).collect();
            ks.sort();
            let mut vs = api.values();
            vs.sort();
            let mut from_get: Vec<(u64, u64)> = Vec::new();
            for k in 0..cfg.nkeys + cfg.stable + 4 {
                if let Some(v) = api.get(k) {
                    from_get.push((k, v));
                    if !api.contains_key(k) {
                        res.agreement_failures.push(format!("get({k}) succeeds but contains_key({k}) is false"));
                    }
                } else if api.contains_key(k) {
                    res.agreement_failures.push(format!("contains_key({k}) is true but get({k}) is None"));
                }
            }
            let it_pairs: Vec<(u64, u64)> = it.iter().map(|e| (e.k, e.v)).collect();
            if it_pairs != from_get {
                res.agreement_failures.push(format!("iter() yields {:?} but lookups succeed for {:?}", it_pairs, from_get));
            }
            if ks != it_pairs.iter().map(|x| x.0).collect::<Vec<_>>() {
                res.agreement_failures.push(format!("keys() yields {:?} but iter() yields {:?}", ks, it_pairs));
            }
            let mut iv: Vec<u64> = it_pairs.iter().map(|x| x.1).collect();
            iv.sort();
            if vs != iv {
                res.agreement_failures.push("values() and iter() disagree".into());
            }
            if api.len() != it_pairs.len() || api.is_empty() != it_pairs.is_empty() {
                res.agreement_failures.push(format!("len() = {} is_empty() = {} but iteration yields {} entries", api.len(), api.is_empty(), it_pairs.len()));
            }
            let mut from_dump: Vec<(u64, u64)> = entries.iter().map(|e| (e.key.k, e.value.map(|v| v.get()).unwrap_or(u64::MAX))).collect();
            from_dump.sort();
            if from_dump != it_pairs {
                res.agreement_failures.push(format!("table walk finds {:?} but iter() yields {:?}", from_dump, it_pairs));
            }
            res.audit = a;
        }
        AnyMap::Set(set) => {
            let g = set.guard();
            for k in 0..cfg.nkeys {
                let call = tick();
                let r = set.contains(&KQ(k), &g);
                let ret = tick();
                res.history.push(Ev { thread: 999, key: k, op: Op::Contains { res: r }, call, ret });
            }
            let d = set.verif_map().verif_dump(&g);
            let hf = |k: &TKey| hash_of(cfg.mode, k.k);
            let (a, _) = inspect::audit(&d, Some(&hf), set.len(), set.is_empty());
            res.audit_failures = a.failures.clone();
            res.final_len = d.len;
            res.final_count = d.count;
            res.final_size_ctl = d.size_ctl;
            let mut ks: Vec<u64> = set.iter(&g).map(|k| k.k).collect();
            ks.sort();
            let want: Vec<u64> = (0..cfg.nkeys).filter(|k| set.contains(&KQ(*k), &g)).collect();
            if ks != want || set.len() != ks.len() {
                res.agreement_failures.push(format!("set iteration yields {:?}, contains() holds for {:?}, len() = {}", ks, want, set.len()));
            }
            res.audit = a;
        }
    }
    res.corrupt = corrupt_take();
    // ---- teardown
    ledger().set_phase(1);
    match Arc::try_unwrap(am) {
        Ok(m) => {
            let r = guarded(move || drop(m));
            if let Err(p) = r {
                res.panics.push(format!("dropping the map panicked: {p}"));
            }
        }
        Err(_) => res.panics.push("map still shared at teardown".into()),
    }
    res.ledger = ledger().report();
    res.corrupt.extend(corrupt_take());
    res
}

// ------------------------------------------------------------------ resize event monitor (C10)
#[derive(Default, Debug, Clone)]
pub struct ResizeStats {
    pub generations: u64,
    pub bins_forwarded: u64,
    pub multi_helper_generations: u64,
    pub max_helpers: usize,
    pub helper_hist: BTreeMap<usize, u64>,
    pub lens: BTreeSet<usize>,
}

/// Checks the resize events of one round: each bin of each old table forwarded exactly once,
/// one publication per generation, generations ordered and not overlapping, lengths doubling.
pub fn resize_monitor(events: &[EventRec], final_len: usize) -> Result<ResizeStats, String> {
    let mut st = ResizeStats::default();
    let mut evs: Vec<&EventRec> = events.iter().collect();
    evs.sort_by_key(|e| e.ticket);
    // split per old-table address into generations at each EV_RESIZE_BEGIN (emitted before the
    // successor table is visible, so no helper event of that generation can precede it)
    #[derive(Default)]
    struct Gen {
        n: usize,
        init_ticket: u64,
        init_thread: u16,
        forwarded: StdMap<usize, u32>,
        published: Vec<(u64, usize)>,
        helpers: BTreeSet<u16>,
    }
    let mut open: StdMap<usize, Gen> = StdMap::new();
    let mut done: Vec<(usize, Gen)> = Vec::new();
    let mut current_resize: Option<usize> = None;
    let mut last_publish: StdMap<usize, (u64, usize)> = StdMap::new(); // new table addr -> (ticket, n of old)
    for e in &evs {
        match e.site {
            fvf::EV_RESIZE_BEGIN => {
                if let Some(g) = open.remove(&e.a) {
                    done.push((e.a, g));
                }
                if let Some(other) = current_resize {
                    if open.get(&other).map_or(false, |g| g.published.is_empty()) {
                        return Err(format!("a resize of table {:#x} was initiated (ticket {}) while the resize of table {:#x} was not yet published: generations overlap", e.a, e.ticket, other));
                    }
                }
                if let Some((pt, n_old)) = last_publish.get(&e.a) {
                    if *pt > e.ticket {
                        return Err(format!("resize of table {:#x} initiated at ticket {} before it was published at ticket {pt}", e.a, e.ticket));
                    }
                    if e.b != 2 * n_old {
                        return Err(format!("table published by a resize of a {n_old}-bin table has {} bins, expected exactly {}", e.b, 2 * n_old));
                    }
                }
                let mut g = Gen { n: e.b, init_ticket: e.ticket, init_thread: e.thread, ..Default::default() };
                g.helpers.insert(e.thread);
                open.insert(e.a, g);
                current_resize = Some(e.a);
            }
            fvf::EV_HELPER_JOINED => {
                if let Some(g) = open.get_mut(&e.a) {
                    g.helpers.insert(e.thread);
                }
            }
            fvf::EV_BIN_FORWARDED => match open.get_mut(&e.a) {
                Some(g) => {
                    *g.forwarded.entry(e.b).or_insert(0) += 1;
                    g.helpers.insert(e.thread);
                }
                None => return Err(format!("bin {} of table {:#x} forwarded (ticket {}) outside any resize generation", e.b, e.a, e.ticket)),
            },
            fvf::EV_TABLE_PUBLISHED => match open.get_mut(&e.a) {
                Some(g) => {
                    g.published.push((e.ticket, e.b));
                    last_publish.insert(e.b, (e.ticket, g.n));
                }
                None => return Err(format!("table {:#x} published as successor of {:#x} without a resize generation", e.b, e.a)),
            },
            _ => {}
        }
    }
    for (a, g) in open.drain() {
        done.push((a, g));
    }
    let mut last_n = 0usize;
    for (a, g) in &done {
        st.generations += 1;
        st.lens.insert(g.n);
        let h = g.helpers.len();
        *st.helper_hist.entry(h).or_insert(0) += 1;
        st.max_helpers = st.max_helpers.max(h);
        if h >= 2 {
            st.multi_helper_generations += 1;
        }
        if g.published.len() != 1 {
            return Err(format!("resize of the {}-bin table {:#x} (initiated by thread {} at ticket {}) was published {} times", g.n, a, g.init_thread, g.init_ticket, g.published.len()));
        }
        for i in 0..g.n {
            let c = g.forwarded.get(&i).copied().unwrap_or(0);
            if c != 1 {
                return Err(format!("bin {i} of the {}-bin table {:#x} was forwarded {c} times during its resize", g.n, a));
            }
        }
        if g.forwarded.len() != g.n {
            return Err(format!("{} distinct bins forwarded for a table of {} bins", g.forwarded.len(), g.n));
        }
        st.bins_forwarded += g.n as u64;
        last_n = last_n.max(g.n);
    }
    if last_n > 0 && final_len != 2 * last_n {
        return Err(format!("largest resized table had {last_n} bins but the final table has {final_len} bins (expected exactly twice)"));
    }
    Ok(st)
}

// ------------------------------------------------------------------ iterator oracle (C07)
#[derive(Default, Debug, Clone)]
pub struct IterStats {
    pub iterations: u64,
    pub yields: u64,
    pub stable_present_checked: u64,
    pub stable_absent_checked: u64,
    pub phantom_checked: u64,
}

fn writes(op: &Op) -> bool {
    !matches!(op, Op::Get { .. } | Op::Contains { .. })
}

/// Definite state of a key after op `e` took effect (None = not determined by this op alone).
fn state_after(e: &Ev) -> Option<Option<u64>> {
    match e.op {
        Op::Insert { v, .. } => Some(Some(v)),
        Op::TryInsert { v, ok, cur } => Some(if ok { Some(v) } else { cur }),
        Op::Remove { .. } => Some(None),
        Op::Compute { saw, out, .. } => Some(if saw.is_some() { out } else { None }),
        Op::SetInsert { .. } => Some(Some(0)),
        Op::SetRemove { .. } => Some(None),
        Op::ForceRemove => Some(None),
        _ => None,
    }
}

pub fn iter_oracle(res: &RoundResult, cfg: &RoundCfg) -> Result<IterStats, String> {
    let mut st = IterStats::default();
    if res.iters.is_empty() {
        return Ok(st);
    }
    let mut by_key: BTreeMap<u64, Vec<&Ev>> = BTreeMap::new();
    // value id -> (call of the op that wrote it) ; value id -> ret of the op that terminated it
    let mut written_at: StdMap<u64, u64> = StdMap::new();
    let mut terminated_ret: StdMap<u64, u64> = StdMap::new();
    for e in &res.history {
        if e.thread == 999 {
            continue;
        }
        if writes(&e.op) {
            by_key.entry(e.key).or_default().push(e);
        }
        match e.op {
            Op::Insert { v, old } => {
                written_at.insert(v, e.call);
                if let Some(o) = old {
                    let r = terminated_ret.entry(o).or_insert(e.ret);
                    *r = (*r).min(e.ret);
                }
            }
            Op::TryInsert { v, ok: true, .. } => {
                written_at.insert(v, e.call);
            }
            Op::Remove { res: Some(o) } => {
                let r = terminated_ret.entry(o).or_insert(e.ret);
                *r = (*r).min(e.ret);
            }
            Op::Compute { saw: Some(s), out, .. } => {
                if let Some(v) = out {
                    written_at.insert(v, e.call);
                }
                let r = terminated_ret.entry(s).or_insert(e.ret);
                *r = (*r).min(e.ret);
            }
            _ => {}
        }
    }
    for v in res.prefill.values() {
        written_at.insert(*v, 0);
    }
    for it in &res.iters {
        st.iterations += 1;
        st.yields += it.yields.len() as u64;
        if it.aborted {
            return Err(format!("iteration (kind {}) by thread {} did not end within {} yields", it.kind, it.thread, it.yields.len()));
        }
        let (c, e) = (it.created, it.ended);
        // yields per key
        let mut seen: BTreeMap<u64, Vec<u64>> = BTreeMap::new();
        for (k, v, _) in &it.yields {
            if *k != u64::MAX {
                seen.entry(*k).or_default().push(*v);
            }
        }
        let value_multiset: Option<BTreeMap<u64, u32>> = if it.kind == 2 {
            let mut m = BTreeMap::new();
            for (_, v, _) in &it.yields {
                *m.entry(*v).or_insert(0) += 1;
            }
            Some(m)
        } else {
            None
        };
        for k in 0..cfg.nkeys + cfg.stable {
            let ws = by_key.get(&k).map(|v| v.as_slice()).unwrap_or(&[]);
            // no write-capable call may overlap [c, e]
            if ws.iter().any(|w| !(w.ret < c || w.call > e)) {
                continue;
            }
            let before: Vec<&&Ev> = ws.iter().filter(|w| w.ret < c).collect();
            let state: Option<u64> = if before.is_empty() {
                res.prefill.get(&k).copied()
            } else {
                // the last write before c must not overlap any other write
                let last = before.iter().max_by_key(|w| w.call).unwrap();
                if before.iter().any(|w| !std::ptr::eq(**w, **last) && w.ret > last.call) {
                    continue;
                }
                match state_after(last) {
                    Some(s) => s,
                    None => continue,
                }
            };
            match (state, it.kind) {
                (Some(v), 0) | (Some(v), 1) => {
                    st.stable_present_checked += 1;
                    let got = seen.get(&k).cloned().unwrap_or_default();
                    if got.len() != 1 {
                        return Err(format!(
                            "key {k} was present with value {v:#x} and untouched during the whole iteration [{c}..{e}] by thread {} (kind {}), but was yielded {} times",
                            it.thread, it.kind, got.len()
                        ));
                    }
                    if it.kind == 0 && got[0] != v {
                        return Err(format!("stable key {k} was yielded with value {:#x}, expected {v:#x}", got[0]));
                    }
                }
                (Some(v), _) => {
                    st.stable_present_checked += 1;
                    let n = value_multiset.as_ref().and_then(|m| m.get(&v)).copied().unwrap_or(0);
                    if n != 1 {
                        return Err(format!("values(): value {v:#x} of the untouched key {k} was yielded {n} times"));
                    }
                }
                (None, 0) | (None, 1) => {
                    st.stable_absent_checked += 1;
                    if seen.contains_key(&k) {
                        return Err(format!("key {k} was absent and untouched during the whole iteration [{c}..{e}] but was yielded"));
                    }
                }
                _ => {}
            }
        }
        // phantoms
        if !cfg.set_facade {
            for (k, v, ty) in &it.yields {
                if *v == u64::MAX {
                    continue;
                }
                st.phantom_checked += 1;
                match written_at.get(v) {
                    None => return Err(format!("iteration yielded value {v:#x} (key {k}) that no operation ever wrote")),
                    Some(w) if *w > *ty => return Err(format!("iteration yielded value {v:#x} (key {k}) at ticket {ty}, but the call that wrote it was invoked later (ticket {w})")),
                    _ => {}
                }
                if let Some(t) = terminated_ret.get(v) {
                    if *t < c {
                        return Err(format!("iteration created at ticket {c} yielded value {v:#x} (key {k}) although a call that replaced/removed it had returned at ticket {t}"));
                    }
                }
            }
        }
    }
    Ok(st)
}


/// Hand-made event logs for the resize monitor; returns the list of self-test failures.
pub fn selftest_resize_monitor() -> Vec<String> {
    let mut fails = Vec::new();
    let ev = |ticket: u64, thread: u16, site: u32, a: usize, b: usize| EventRec { ticket, thread, site, a, b };
    let good = |n: usize| -> Vec<EventRec> {
        let mut v = vec![ev(1, 0, fvf::EV_RESIZE_BEGIN, 0x1000, n), ev(2, 0, fvf::EV_RESIZE_INITIATED, 0x1000, n), ev(3, 1, fvf::EV_HELPER_JOINED, 0x1000, n)];
        for i in 0..n {
            v.push(ev(10 + i as u64, (i % 2) as u16, fvf::EV_BIN_FORWARDED, 0x1000, i));
        }
        v.push(ev(1000, 0, fvf::EV_TABLE_PUBLISHED, 0x1000, 0x2000));
        v
    };
    let check = |name: &str, evs: Vec<EventRec>, final_len: usize, want_ok: bool, fails: &mut Vec<String>| {
        let r = resize_monitor(&evs, final_len);
        if r.is_ok() != want_ok {
            fails.push(format!("resize monitor selftest {name}: expected ok={want_ok}, got {:?}", r.map(|s| s.generations)));
        }
    };
    check("good", good(8), 16, true, &mut fails);
    let mut twice = good(8);
    twice.push(ev(500, 1, fvf::EV_BIN_FORWARDED, 0x1000, 3));
    check("bin-forwarded-twice", twice, 16, false, &mut fails);
    let mut missing = good(8);
    missing.retain(|e| !(e.site == fvf::EV_BIN_FORWARDED && e.b == 5));
    check("bin-never-forwarded", missing, 16, false, &mut fails);
    let mut two_pubs = good(8);
    two_pubs.push(ev(1001, 1, fvf::EV_TABLE_PUBLISHED, 0x1000, 0x3000));
    check("published-twice", two_pubs, 16, false, &mut fails);
    let mut overlap = good(8);
    overlap.insert(5, ev(6, 2, fvf::EV_RESIZE_BEGIN, 0x2000, 16));
    check("generations-overlap", overlap, 16, false, &mut fails);
    check("wrong-final-length", good(8), 64, false, &mut fails);
    let mut not_double = good(8);
    not_double.push(ev(2000, 0, fvf::EV_RESIZE_BEGIN, 0x2000, 32));
    check("successor-not-doubled", not_double, 64, false, &mut fails);
    fails
}
