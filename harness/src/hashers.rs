//! Deterministic `BuildHasher`s that put keys where a workload wants them.
use crate::util::splitmix;
use std::cell::Cell;
use std::hash::{BuildHasher, Hasher};

pub const UNIFORM: u8 = 0;
pub const IDENTITY: u8 = 1;
/// every key hashes to 0: one bin, all hashes equal (tree ordered by key only)
pub const CONSTANT: u8 = 2;
/// `k << 32`: one bin for every table up to 2^32 bins, all hashes different
pub const SAMEBIN: u8 = 3;
/// `k << 48`: only high bits set
pub const HIGHBITS: u8 = 4;
/// `(k / 3) << 32`: one bin, groups of three keys share a hash
pub const MIXED: u8 = 5;
/// `((k % 4) << 6) | ((k / 4) << 32)`: one bin in a 64-bin table, splits in two at 128 bins
/// and in four at 256 bins
pub const SPLITTING: u8 = 6;
/// `(k % 5) << 32`: one bin, five groups of equal hashes, hash order unrelated to key order
pub const MODGROUPS: u8 = 7;
/// `(0xffff - (k & 0xffff)) << 32`: one bin, all hashes different, hash order the reverse of key order
pub const REVERSED: u8 = 8;
/// `0xC0 | (k << 32)`: bin 0 up to 64 bins, moves as a whole to the HIGH half at 64 -> 128 and
/// again at 128 -> 256
pub const ALLHIGH: u8 = 9;
/// `k / 1000`: keys of one thousand share a hash (many equal tree bins side by side; litmus only)
pub const CLASS: u8 = 10;
/// every key hashes to u64::MAX (the last bin of every table, all hash bits set)
pub const MAXCONST: u8 = 11;
/// `!k`: all high bits set, keys spread over the bins from the top down
pub const INVERTED: u8 = 12;
/// `(k % 7) << 60 | (k / 7) << 32`: one bin; the top hash bit differs between keys
pub const TOPBITS: u8 = 13;
/// `(k & 1) << 6`: two hash values that differ only in the bit that splits a 64-bin table
pub const TWOVAL6: u8 = 14;
/// `(k & 1) << 7`: two hash values that differ only in the bit that splits a 128-bin table
pub const TWOVAL7: u8 = 15;
pub const ALL_MODES: [u8; 15] = [UNIFORM, IDENTITY, CONSTANT, SAMEBIN, HIGHBITS, MIXED, SPLITTING, MODGROUPS, REVERSED, ALLHIGH, MAXCONST, INVERTED, TOPBITS, TWOVAL6, TWOVAL7];
/// the modes that crowd one bin
pub const CROWDED_MODES: [u8; 11] = [CONSTANT, SAMEBIN, MIXED, SPLITTING, MODGROUPS, REVERSED, ALLHIGH, MAXCONST, TOPBITS, TWOVAL6, TWOVAL7];

pub fn mode_name(m: u8) -> &'static str {
    match m {
        UNIFORM => "uniform",
        IDENTITY => "identity",
        CONSTANT => "constant",
        SAMEBIN => "samebin",
        HIGHBITS => "highbits",
        MIXED => "mixed",
        SPLITTING => "splitting",
        MODGROUPS => "modgroups",
        REVERSED => "reversed",
        ALLHIGH => "allhigh",
        CLASS => "class",
        MAXCONST => "maxconst",
        INVERTED => "inverted",
        TOPBITS => "topbits",
        TWOVAL6 => "twoval6",
        TWOVAL7 => "twoval7",
        _ => "?",
    }
}

pub fn hash_of(mode: u8, k: u64) -> u64 {
    match mode {
        UNIFORM => splitmix(k),
        IDENTITY => k,
        CONSTANT => 0,
        SAMEBIN => k << 32,
        HIGHBITS => k << 48,
        MIXED => (k / 3) << 32,
        MODGROUPS => (k % 5) << 32,
        REVERSED => (0xffff - (k & 0xffff)) << 32,
        ALLHIGH => 0xC0 | (k << 32),
        CLASS => k / 1000,
        MAXCONST => u64::MAX,
        INVERTED => !k,
        TOPBITS => ((k % 7) << 60) | ((k / 7) << 32),
        TWOVAL6 => (k & 1) << 6,
        TWOVAL7 => (k & 1) << 7,
        _ => ((k % 4) << 6) | ((k / 4) << 32),
    }
}

thread_local! {
    /// mode used by `HB::default()` (needed by `collect`, serde and rayon constructors)
    static DEFAULT_MODE: Cell<u8> = const { Cell::new(UNIFORM) };
}
pub fn set_default_mode(m: u8) {
    DEFAULT_MODE.with(|c| c.set(m));
}

#[derive(Clone, Copy, Debug, PartialEq, Eq)]
pub struct HB {
    pub mode: u8,
}
impl HB {
    pub fn new(mode: u8) -> HB {
        HB { mode }
    }
}
impl Default for HB {
    fn default() -> HB {
        HB {
            mode: DEFAULT_MODE.with(|c| c.get()),
        }
    }
}
pub struct H {
    mode: u8,
    v: u64,
    n: u32,
}
impl Hasher for H {
    fn finish(&self) -> u64 {
        hash_of(self.mode, self.v)
    }
    fn write(&mut self, b: &[u8]) {
        // strings and other byte keys: fold the bytes
        for x in b {
            self.v = self.v.wrapping_mul(131).wrapping_add(*x as u64);
            self.n += 1;
        }
    }
    fn write_u64(&mut self, x: u64) {
        self.v = if self.n == 0 { x } else { self.v.wrapping_mul(131).wrapping_add(x) };
        self.n += 1;
    }
    fn write_u32(&mut self, x: u32) {
        self.write_u64(x as u64)
    }
    fn write_usize(&mut self, x: usize) {
        self.write_u64(x as u64)
    }
    fn write_u8(&mut self, x: u8) {
        // `str::hash` appends 0xff; ignore it so that "12" and 12-like keys stay predictable
        if x != 0xff {
            self.write_u64(x as u64)
        }
    }
}
impl BuildHasher for HB {
    type Hasher = H;
    fn build_hasher(&self) -> H {
        H {
            mode: self.mode,
            v: 0,
            n: 0,
        }
    }
}
