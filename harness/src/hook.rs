//! The one hook installed into flurry and the per-thread roles that decide what a site does.
use crate::util::{fnv, tick};
use flurry::verif as fvf;
use std::cell::Cell;
use std::sync::atomic::{AtomicBool, AtomicU64, AtomicUsize, Ordering};
use std::sync::{Condvar, Mutex};

pub const ROLE_NONE: u8 = 0;
/// free-running worker: random delays at sites
pub const ROLE_DELAY: u8 = 1;
/// the one thread a suspend experiment freezes at its j-th step
pub const ROLE_SUSPENDEE: u8 = 2;
/// a probing reader: counts its own steps and any lock / park site it reaches
pub const ROLE_PROBE: u8 = 3;
/// participant of the serialised scheduler
pub const ROLE_SERIAL: u8 = 4;
/// only counts its own steps (dry runs)
pub const ROLE_COUNT: u8 = 5;

thread_local! {
    static ROLE: Cell<u8> = const { Cell::new(0) };
    static TID: Cell<u16> = const { Cell::new(0) };
    static TRNG: Cell<u64> = const { Cell::new(0x9E37_79B9_7F4A_7C15) };
    static STEPS: Cell<u64> = const { Cell::new(0) };
    static LOCK_SITES: Cell<u64> = const { Cell::new(0) };
}

thread_local! {
    static TL_HITS: [Cell<u64>; 64] = const { [const { Cell::new(0) }; 64] };
}
/// Adds this thread's site counters to the global ones.
pub fn flush_hits() {
    let _ = TL_HITS.try_with(|h| {
        for (i, c) in h.iter().enumerate() {
            let v = c.replace(0);
            if v > 0 {
                SITE_HITS[i].fetch_add(v, Ordering::Relaxed);
            }
        }
    });
}
pub fn set_role(role: u8, tid: u16, seed: u64) {
    flush_hits();
    ROLE.with(|r| r.set(role));
    TID.with(|t| t.set(tid));
    TRNG.with(|t| t.set(crate::util::splitmix(seed) | 1));
    STEPS.with(|s| s.set(0));
    LOCK_SITES.with(|s| s.set(0));
}
pub fn role() -> u8 {
    ROLE.try_with(|r| r.get()).unwrap_or(0)
}
pub fn my_steps() -> u64 {
    STEPS.with(|s| s.get())
}
pub fn my_lock_sites() -> u64 {
    LOCK_SITES.with(|s| s.get())
}

#[derive(Clone, Copy, Debug)]
pub struct EventRec {
    pub ticket: u64,
    pub thread: u16,
    pub site: u32,
    pub a: usize,
    pub b: usize,
}

static EVENTS_ON: AtomicBool = AtomicBool::new(false);
static EVENTS: Mutex<Vec<EventRec>> = Mutex::new(Vec::new());
/// hits per site id (only sites >= 10 are counted: the step sites 1..5 are too hot)
static SITE_HITS: [AtomicU64; 64] = [const { AtomicU64::new(0) }; 64];
static SIGNATURE: AtomicU64 = AtomicU64::new(crate::util::FNV_OFFSET);
/// 0 = no delays, 1 = normal profile, 2 = aggressive
static DELAY_LEVEL: AtomicUsize = AtomicUsize::new(1);
/// site that gets a delay on (almost) every hit, 0 = none
static FOCUS_SITE: AtomicUsize = AtomicUsize::new(0);

pub fn install() {
    fvf::set_hook(Some(hook));
}
pub fn uninstall() {
    fvf::set_hook(None);
}
pub fn events_enable(on: bool) {
    EVENTS_ON.store(on, Ordering::SeqCst);
}
pub fn events_take() -> Vec<EventRec> {
    std::mem::take(&mut *EVENTS.lock().unwrap())
}
pub fn site_hits() -> Vec<(u32, u64)> {
    flush_hits();
    SITE_HITS
        .iter()
        .enumerate()
        .map(|(i, c)| (i as u32, c.load(Ordering::Relaxed)))
        .filter(|x| x.1 > 0)
        .collect()
}
pub fn site_hit_count(site: u32) -> u64 {
    flush_hits();
    SITE_HITS[site as usize % 64].load(Ordering::Relaxed)
}
pub fn signature_take() -> u64 {
    SIGNATURE.swap(crate::util::FNV_OFFSET, Ordering::SeqCst)
}
pub fn set_delay_level(l: usize) {
    DELAY_LEVEL.store(l, Ordering::SeqCst);
}
pub fn set_focus_site(s: u32) {
    FOCUS_SITE.store(s as usize, Ordering::SeqCst);
}

// ---------------------------------------------------------------- per-thread gates
/// A gate freezes the thread that owns it at a chosen point (its n-th instrumented step, or the
/// n-th hit of one site) until the controller releases it. Several threads can be frozen at
/// different points at the same time.
pub struct Gate {
    pub frozen: AtomicBool,
    pub frozen_site: AtomicU64,
    released: Mutex<bool>,
    cv: Condvar,
    /// freeze at this step count (u64::MAX = off)
    at_step: AtomicU64,
    /// freeze at the nth hit of this site (0 = off)
    at_site: AtomicU64,
    at_site_nth: AtomicU64,
    site_seen: AtomicU64,
    /// optional filter on the site's first argument (0 = any)
    at_site_arg: AtomicUsize,
    pub steps: AtomicU64,
    pub tid: std::sync::atomic::AtomicI64,
    /// number of freezes the owner has left
    thaws: AtomicU64,
    /// lock / park sites the owner reached
    pub lock_sites: AtomicU64,
}
impl Gate {
    pub fn new() -> std::sync::Arc<Gate> {
        std::sync::Arc::new(Gate {
            frozen: AtomicBool::new(false),
            frozen_site: AtomicU64::new(0),
            released: Mutex::new(false),
            cv: Condvar::new(),
            at_step: AtomicU64::new(u64::MAX),
            at_site: AtomicU64::new(0),
            at_site_nth: AtomicU64::new(0),
            site_seen: AtomicU64::new(0),
            at_site_arg: AtomicUsize::new(0),
            steps: AtomicU64::new(0),
            tid: std::sync::atomic::AtomicI64::new(0),
            thaws: AtomicU64::new(0),
            lock_sites: AtomicU64::new(0),
        })
    }
    pub fn arm_step(&self, step: u64) {
        *self.released.lock().unwrap() = false;
        self.at_site.store(0, Ordering::SeqCst);
        self.at_step.store(step, Ordering::SeqCst);
    }
    pub fn arm_site(&self, site: u32, nth: u64) {
        *self.released.lock().unwrap() = false;
        self.at_step.store(u64::MAX, Ordering::SeqCst);
        self.site_seen.store(0, Ordering::SeqCst);
        self.at_site_nth.store(nth, Ordering::SeqCst);
        self.at_site_arg.store(0, Ordering::SeqCst);
        self.at_site.store(site as u64, Ordering::SeqCst);
    }
    /// like `arm_site`, but only hits whose first argument equals `arg` count
    pub fn arm_site_arg(&self, site: u32, arg: usize, nth: u64) {
        self.arm_site(site, nth);
        self.at_site_arg.store(arg, Ordering::SeqCst);
    }
    pub fn disarm(&self) {
        self.at_step.store(u64::MAX, Ordering::SeqCst);
        self.at_site.store(0, Ordering::SeqCst);
    }
    pub fn is_frozen(&self) -> bool {
        self.frozen.load(Ordering::SeqCst)
    }
    /// Releases the thread if it is (or later gets) frozen at the currently armed point.
    pub fn release(&self) {
        let was_frozen = self.is_frozen();
        let thaws = self.thaws.load(Ordering::SeqCst);
        *self.released.lock().unwrap() = true;
        self.cv.notify_all();
        if was_frozen {
            // do not return before the owner has really left the freeze point, so that a
            // following `wait_frozen` cannot mistake the old freeze for a new one (the owner
            // may already be frozen again at its next point by the time we look)
            while self.thaws.load(Ordering::SeqCst) == thaws {
                std::thread::yield_now();
            }
        }
    }
    /// Spin until the owner is frozen or `done` returns true; false = neither within the limit.
    pub fn wait_frozen(&self, done: &dyn Fn() -> bool, limit_ms: u64) -> bool {
        let t0 = std::time::Instant::now();
        loop {
            if self.is_frozen() {
                return true;
            }
            if done() {
                return false;
            }
            if t0.elapsed().as_millis() as u64 > limit_ms {
                return false;
            }
            std::thread::yield_now();
        }
    }
    fn on_site(&self, site: u32, a: usize) {
        let n = self.steps.fetch_add(1, Ordering::Relaxed) + 1;
        if is_lock_site(site) {
            self.lock_sites.fetch_add(1, Ordering::Relaxed);
        }
        let mut stop = n == self.at_step.load(Ordering::Relaxed);
        if !stop {
            let fs = self.at_site.load(Ordering::Relaxed);
            if fs != 0 && fs == site as u64 {
                let want = self.at_site_arg.load(Ordering::Relaxed);
                if want == 0 || want == a {
                    let seen = self.site_seen.fetch_add(1, Ordering::SeqCst) + 1;
                    stop = seen == self.at_site_nth.load(Ordering::SeqCst);
                }
            }
        }
        if stop {
            self.at_step.store(u64::MAX, Ordering::SeqCst);
            self.at_site.store(0, Ordering::SeqCst);
            self.frozen_site.store(site as u64, Ordering::SeqCst);
            let mut g = self.released.lock().unwrap();
            self.frozen.store(true, Ordering::SeqCst);
            while !*g {
                g = self.cv.wait(g).unwrap();
            }
            *g = false;
            self.frozen.store(false, Ordering::SeqCst);
            self.thaws.fetch_add(1, Ordering::SeqCst);
        }
    }
}
thread_local! {
    static GATE: std::cell::RefCell<Option<std::sync::Arc<Gate>>> = const { std::cell::RefCell::new(None) };
}
/// The calling thread becomes a suspendee controlled by `gate`.
pub fn attach_gate(gate: std::sync::Arc<Gate>, tid: u16) {
    #[cfg(not(miri))]
    gate.tid.store(unsafe { libc::syscall(libc::SYS_gettid) } as i64, Ordering::SeqCst);
    GATE.with(|g| *g.borrow_mut() = Some(gate));
    set_role(ROLE_GATED, tid, tid as u64 + 1);
}
/// instrumented steps the calling (gated) thread has made so far
pub fn my_gate_steps() -> u64 {
    GATE.with(|g| g.borrow().as_ref().map(|g| g.steps.load(Ordering::Relaxed)).unwrap_or(0))
}
pub fn detach_gate() {
    GATE.with(|g| *g.borrow_mut() = None);
    set_role(ROLE_NONE, 0, 0);
}
/// a thread whose steps are controlled by its own `Gate`
pub const ROLE_GATED: u8 = 6;

// ---------------------------------------------------------------- suspend engine state
pub struct Suspend {
    pub freeze_at: AtomicU64,
    pub frozen: AtomicBool,
    pub frozen_site: AtomicU64,
    release: Mutex<bool>,
    cv: Condvar,
    /// freeze when this site id is hit for the n-th time instead of at a step count
    pub freeze_site: AtomicU64,
    pub freeze_site_nth: AtomicU64,
    site_seen: AtomicU64,
}
pub static SUSPEND: Suspend = Suspend {
    freeze_at: AtomicU64::new(u64::MAX),
    frozen: AtomicBool::new(false),
    frozen_site: AtomicU64::new(0),
    release: Mutex::new(false),
    cv: Condvar::new(),
    freeze_site: AtomicU64::new(0),
    freeze_site_nth: AtomicU64::new(0),
    site_seen: AtomicU64::new(0),
};
impl Suspend {
    /// arm: the suspendee stops at its `step`-th instrumented step (u64::MAX = never)
    pub fn arm_step(&self, step: u64) {
        self.frozen.store(false, Ordering::SeqCst);
        *self.release.lock().unwrap() = false;
        self.freeze_site.store(0, Ordering::SeqCst);
        self.site_seen.store(0, Ordering::SeqCst);
        self.freeze_at.store(step, Ordering::SeqCst);
    }
    /// arm: the suspendee stops at the `nth` hit (1-based) of `site`
    pub fn arm_site(&self, site: u32, nth: u64) {
        self.frozen.store(false, Ordering::SeqCst);
        *self.release.lock().unwrap() = false;
        self.freeze_at.store(u64::MAX, Ordering::SeqCst);
        self.site_seen.store(0, Ordering::SeqCst);
        self.freeze_site_nth.store(nth, Ordering::SeqCst);
        self.freeze_site.store(site as u64, Ordering::SeqCst);
    }
    pub fn disarm(&self) {
        self.freeze_at.store(u64::MAX, Ordering::SeqCst);
        self.freeze_site.store(0, Ordering::SeqCst);
    }
    pub fn is_frozen(&self) -> bool {
        self.frozen.load(Ordering::SeqCst)
    }
    pub fn release(&self) {
        *self.release.lock().unwrap() = true;
        self.cv.notify_all();
    }
    fn block(&self, site: u32) {
        self.frozen_site.store(site as u64, Ordering::SeqCst);
        self.frozen.store(true, Ordering::SeqCst);
        let mut g = self.release.lock().unwrap();
        while !*g {
            g = self.cv.wait(g).unwrap();
        }
        drop(g);
        self.frozen.store(false, Ordering::SeqCst);
    }
}

pub fn is_lock_site(site: u32) -> bool {
    matches!(
        site,
        fvf::BEFORE_LOCK | fvf::AFTER_LOCK | fvf::PRE_PARK | fvf::POST_PARK | fvf::WIN_TREE_ROOT_LOCKED | fvf::EV_WAITER_SET
    )
}

fn hook(site: u32, a: usize, b: usize) {
    let role = role();
    if site >= 10 {
        // NOTE: no atomic read-modify-write here for the window / park / spin sites (20..39): on
        // x86 a locked instruction is a full fence, and a fence injected between two of flurry's
        // own accesses would hide store-buffering bugs from the native stress runs. Counters are
        // thread-local and flushed when the thread changes its role.
        let _ = TL_HITS.try_with(|h| {
            let c = &h[site as usize % 64];
            c.set(c.get() + 1);
        });
        let fence_free = (20..40).contains(&site);
        if role != ROLE_NONE && !fence_free {
            let tid = TID.try_with(|t| t.get()).unwrap_or(0) as u64;
            let _ = SIGNATURE.fetch_update(Ordering::Relaxed, Ordering::Relaxed, |s| {
                Some(fnv(s, (tid << 8) | site as u64))
            });
        }
        if site >= 40 && EVENTS_ON.load(Ordering::Relaxed) {
            let tid = TID.try_with(|t| t.get()).unwrap_or(0);
            let rec = EventRec { ticket: tick(), thread: tid, site, a, b };
            EVENTS.lock().unwrap().push(rec);
        }
    }
    match role {
        ROLE_NONE => {}
        ROLE_DELAY => delay(site),
        ROLE_SUSPENDEE => {
            let n = STEPS.with(|s| {
                s.set(s.get() + 1);
                s.get()
            });
            if n == SUSPEND.freeze_at.load(Ordering::Relaxed) {
                SUSPEND.block(site);
            } else {
                let fs = SUSPEND.freeze_site.load(Ordering::Relaxed);
                if fs != 0 && fs == site as u64 {
                    let seen = SUSPEND.site_seen.fetch_add(1, Ordering::SeqCst) + 1;
                    if seen == SUSPEND.freeze_site_nth.load(Ordering::SeqCst) {
                        SUSPEND.block(site);
                    }
                }
            }
        }
        ROLE_PROBE | ROLE_COUNT => {
            STEPS.with(|s| s.set(s.get() + 1));
            if is_lock_site(site) {
                LOCK_SITES.with(|s| s.set(s.get() + 1));
            }
        }
        ROLE_GATED => {
            let g = GATE.try_with(|g| g.borrow().clone()).ok().flatten();
            if let Some(g) = g {
                g.on_site(site, a);
            }
        }
        ROLE_SERIAL => crate::serial::on_site(site, a, b),
        _ => {}
    }
}

#[inline]
fn delay(site: u32) {
    let level = DELAY_LEVEL.load(Ordering::Relaxed);
    if level == 0 {
        return;
    }
    let x = TRNG.with(|c| {
        let mut x = c.get();
        x ^= x << 13;
        x ^= x >> 7;
        x ^= x << 17;
        c.set(x);
        x
    });
    let focus = FOCUS_SITE.load(Ordering::Relaxed) as u32;
    let mut p: u64 = match site {
        fvf::WIN_TRANSFER_BEFORE_FORWARD | fvf::WIN_TRANSFER_BETWEEN_BINS | fvf::WIN_TRANSFER_AFTER_FORWARD => 3,
        fvf::WIN_HEAD_VALIDATED | fvf::WIN_UNLINKED | fvf::WIN_BEFORE_TREEIFY | fvf::WIN_TREE_FIRST_STORED
        | fvf::WIN_TREE_READ_LOCKED | fvf::WIN_BEFORE_CLOSURE | fvf::WIN_TREE_ROOT_LOCKED => 8,
        fvf::AFTER_LOCK => 16,
        fvf::BEFORE_LOCK => 48,
        fvf::PRE_PARK | fvf::EV_WAITER_SET | fvf::AFTER_UNPARK => 4,
        fvf::EV_RESIZE_INITIATED | fvf::EV_HELPER_JOINED | fvf::EV_TABLE_PUBLISHED => 2,
        fvf::RAW_ATOMIC => 128,
        _ => 768,
    };
    if level >= 2 {
        p = (p / 3).max(1);
    }
    if focus != 0 && site == focus {
        p = 1;
    }
    if x % p != 0 {
        return;
    }
    match (x >> 20) % 8 {
        0..=3 => {
            for _ in 0..((x >> 24) % 2000) {
                std::hint::spin_loop();
            }
        }
        4..=5 => std::thread::yield_now(),
        _ => {
            #[cfg(not(miri))]
            std::thread::sleep(std::time::Duration::from_micros(20 + (x >> 24) % 150));
            #[cfg(miri)]
            std::thread::yield_now();
        }
    }
}
