"""Per-property job plans: which worker runs in which build flavour, how many shards, for how long."""


def J(name, flavour, args, shards=16, budget_s=20, **kw):
    d = dict(name=name, flavour=flavour, args=args, shards=shards, budget_s=budget_s)
    d.update(kw)
    return d


def q(tier, quick, thorough):
    return thorough if tier == "thorough" else quick


PLAN = {}

PLAN["C02"] = dict(
    level="exploration",
    engines=["seq (native, debug assertions on)", "seq (AddressSanitizer)"],
    assumptions=[
        "BTreeMap/BTreeSet are the reference; the generator reaches every public single-thread operation (per-op counters in coverage)",
        "sequences are random samples of the infinite space of sequences, not an enumeration",
    ],
    require={"steps": 1000},
    jobs=lambda t: [
        J("seq", "native", ["c02", "--sequences", q(t, 250, 6000)], shards=16, budget_s=q(t, 25, 420)),
        J("seq-asan", "asan", ["c02", "--sequences", q(t, 40, 600)], shards=q(t, 8, 16), budget_s=q(t, 20, 300)),
    ],
)

PLAN["C03"] = dict(
    level="exploration",
    engines=["bulk constructors under AddressSanitizer", "bulk constructors under Miri", "held references (free-run, native + ASan)"],
    assumptions=[
        "ASan only sees a use-after-free while the freed block is still in quarantine; Miri is exact but its workloads are small",
    ],
    require={"bulk_cases": 100},
    jobs=lambda t: [
        J("bulk", "native", ["c03", "--part", "bulk"], shards=8, budget_s=q(t, 20, 120)),
        J("bulk-asan", "asan", ["c03", "--part", "bulk"], shards=8, budget_s=q(t, 30, 180)),
    ],
)
