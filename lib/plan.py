"""Per-property job plans: which worker runs in which build flavour, how many shards, for how long."""


def J(name, flavour, args, shards=16, budget_s=20, **kw):
    d = dict(name=name, flavour=flavour, args=args, shards=shards, budget_s=budget_s)
    d.update(kw)
    return d


def q(tier, quick, thorough):
    return thorough if tier == "thorough" else quick


PLAN = {}


def miri_jobs_late(names, seeds_each, shards_each):
    return miri_jobs(names, seeds_each, shards_each)

PLAN["C02"] = dict(
    level="exploration",
    engines=["seq (native, debug assertions on)", "seq (AddressSanitizer)", "seq (Miri: four to eight fixed small sequences)"],
    assumptions=[
        "BTreeMap/BTreeSet are the reference; the generator reaches every public single-thread operation (per-op counters in coverage)",
        "sequences are random samples of the infinite space of sequences, not an enumeration",
    ],
    require={"steps": 1000},
    miri_classes=["ub", "panic", "leak"],
    jobs=lambda t: [J(f"miri-seq-{i}", "miri", a, shards=1, seeds=(0, 1), budget_s=240, absolute_seeds=True) for i, a in enumerate(
        [["seq", 0, 0, 20, 90, 1], ["seq", 2, 64, 14, 70, 2], ["seq", 6, 64, 30, 80, 3], ["seqset", 5, 0, 16, 60, 4]]
        + ([["seq", 1, 3, 40, 150, 5], ["seq", 3, 64, 18, 120, 6], ["seq", 4, 8, 24, 120, 7], ["seqset", 2, 64, 14, 100, 8]] if t == "thorough" else []))] + [
        J("seq", "native", ["c02", "--sequences", q(t, 700, 400000)], shards=16, budget_s=q(t, 40, 360)),
        J("seq-asan", "asan", ["c02", "--sequences", q(t, 80, 100000)], shards=q(t, 8, 16), budget_s=q(t, 30, 240)),
    ],
)

PLAN["C03"] = dict(
    level="exploration",
    engines=["bulk constructors under AddressSanitizer", "bulk constructors under Miri", "held references (free-run, native + ASan)", "window enumeration: writer frozen at every instrumented step of 14 structural operations, reader pins inside the window and holds what it reaches (native + ASan)"],
    assumptions=[
        "ASan only sees a use-after-free while the freed block is still in quarantine; Miri is exact but its workloads are small",
    ],
    require={"bulk_cases": 100, "references_held_and_reread": 1000, "instances_destroyed_while_round_was_running": 1000, "window_cases_by_step": 1000, "window_cases_by_site": 100, "clear_next_table_cases": 3},
    miri_classes=["ub"],
    jobs=lambda t: [
        J("bulk", "native", ["c03", "--part", "bulk"], shards=8, budget_s=q(t, 20, 120)),
        J("bulk-asan", "asan", ["c03", "--part", "bulk"], shards=8, budget_s=q(t, 30, 180)),
        J("held", "native", ["c03", "--part", "held", "--rounds", q(t, 1200, 400000)], shards=8, budget_s=q(t, 40, 400), parallel=8),
        J("held-asan", "asan", ["c03", "--part", "held", "--rounds", q(t, 60, 100000)], shards=8, budget_s=q(t, 40, 300), parallel=8),
        # regression for finding F8 (clear into the successor table during a transfer), deterministic
        J("clear-next-table", "native", ["c03", "--part", "clear-next-table"], shards=1, budget_s=60),
        J("clear-next-table-asan", "asan", ["c03", "--part", "clear-next-table"], shards=1, budget_s=90),
    ] + miri_jobs_late(["list-mix4", "tree-samebin-mix4", "split-trees"], q(t, 4, 96), q(t, 1, 12)),
)

PLAN["C01"] = dict(
    level="exploration",
    engines=["free-run + WGL per-key linearizability checker (native)", "the same recorder and checker on an un-instrumented build of flurry (no hooks, no delays)", "serial token-passing scheduler: seeded, replayable schedules of small programs + the same checker (native)", "per-thread gates: callers frozen after loading the table pointer, released two or three table generations later with a transfer frozen half way (native)", "lock convoys: a holder frozen inside a compute closure, 2-5 calls (inserts for the sibling bin, removals, computes, reserve) queued behind the bin lock one by one, then released (native)"],
    assumptions=[
        "tickets from one relaxed fetch_add counter taken before the call and after the return give a real-time order",
        "sub-histories of more than 256 calls or 2^21 search states are counted as unchecked, never as violations",
        "preemption happens where the OS scheduler or an injected delay puts it; interleavings are sampled",
    ],
    require={"key_histories_checked": 500, "contended_key_histories": 20, "rounds_with_resize": 5, "rounds_with_tree_conversion": 5, "stale_scenarios_grower_frozen_mid_transfer": 100, "convoy_calls_seen_blocked_on_the_lock": 500},
    jobs=lambda t: [
        J("freerun", "native", ["c01", "--rounds", q(t, 1200, 400000)], shards=q(t, 8, 12), budget_s=q(t, 35, 420), parallel=q(t, 8, 12)),
        J("serial", "native", ["c01", "--part", "serial", "--schedules", q(t, 6000, 4000000)], shards=q(t, 8, 16), budget_s=q(t, 30, 240), parallel=q(t, 8, 16)),
        J("plain", "plain", ["stress", "--oracle", "lin", "--rounds", q(t, 1500, 4000000)], shards=8, budget_s=q(t, 25, 240), parallel=8),
        J("stale", "native", ["c01", "--part", "stale", "--scenarios", q(t, 6000, 4000000)], shards=8, budget_s=q(t, 20, 180), parallel=8),
        J("convoy", "native", ["c01", "--part", "convoy", "--scenarios", q(t, 6000, 4000000)], shards=8, budget_s=q(t, 15, 180), parallel=8),
    ],
)

PLAN["C04"] = dict(
    level="exploration",
    engines=["drop ledger over directed paths and free-run rounds (native)"],
    assumptions=["ids beyond the ledger capacity of 2^23 per round are counted as untracked (counter instances_untracked_overflow, 0 in practice)"],
    require={"instances_created": 1000, "drops_before_teardown": 100, "path_treeify": 1, "path_list_split": 1},
    miri_classes=["leak", "ub"],
    jobs=lambda t: [
        J("ledger", "native", ["c04", "--rounds", q(t, 1500, 400000)], shards=q(t, 8, 12), budget_s=q(t, 35, 420), parallel=q(t, 8, 12)),
        J("plain", "plain", ["stress", "--oracle", "ledger", "--rounds", q(t, 1500, 4000000)], shards=8, budget_s=q(t, 25, 240), parallel=8),
    ] + miri_jobs_late(["list-mix4", "tree-samebin-mix4", "tree-grow-from-0"], q(t, 4, 96), q(t, 1, 12)),
)

PLAN["C05"] = dict(
    level="exploration",
    engines=["free-run + quiescent inspector / public agreement audit (native)"],
    assumptions=["audits run only when every worker thread has been joined"],
    require={"quiescent_points_audited": 100, "points_after_multi_thread_resize": 3, "tree_bins_audited": 3},
    jobs=lambda t: [
        J("quiescent", "native", ["c05", "--rounds", q(t, 2500, 400000)], shards=q(t, 8, 12), budget_s=q(t, 35, 420), parallel=q(t, 8, 12)),
        J("plain", "plain", ["stress", "--oracle", "agree", "--rounds", q(t, 1500, 4000000)], shards=8, budget_s=q(t, 25, 240), parallel=8),
    ],
)

PLAN["C06"] = dict(
    level="exploration",
    engines=["seq engine with red-black audit and comparison counter after every operation (native)"],
    assumptions=["the bound floor(4*log2(n+1)) is the worst case of a valid red-black tree with two key comparisons per level"],
    require={"tree_bins_audited": 1000, "lookups_counted": 10000},
    jobs=lambda t: [
        J("trees", "native", ["c06"], shards=16, budget_s=q(t, 25, 500)),
    ],
)

PLAN["C09"] = dict(
    level="exploration",
    engines=["enumeration of guard-taking entry points with a foreign collector's guard (native)"],
    assumptions=["the entry-point list is cross-checked against a scan of /repo/src for public functions taking a Guard; a function missing from the list makes the check inconclusive"],
    require={},
    scan_entry_points=True,
    jobs=lambda t: [
        J("foreign-guard", "native", ["c09"], shards=1, budget_s=20),
    ],
)

PLAN["C10"] = dict(
    level="exploration",
    engines=["resize event monitor over orchestrated (gated) and free-run resizes (native)", "the same monitor over serial-scheduler schedules of growing maps", "stamp arithmetic over all 31 table lengths"],
    assumptions=["resize events are emitted by hooks at points ordered before the next generation can begin"],
    require={"help_transfer_joins_orchestrated": 6, "stamp_lengths": 31, "orch_generations_multi_helper": 5, "generations": 50, "generations_multi_helper": 3, "ladder_runs": 6, "ladder_growths": 30},
    jobs=lambda t: [
        J("resize", "native", ["c10", "--rounds", q(t, 700, 400000)], shards=q(t, 8, 12), budget_s=q(t, 40, 480), parallel=q(t, 8, 12)),
        J("serial", "native", ["c10", "--part", "serial", "--schedules", q(t, 3000, 4000000)], shards=q(t, 8, 16), budget_s=q(t, 25, 240), parallel=q(t, 8, 16)),
    ],
)

PLAN["C14"] = dict(
    level="exploration",
    engines=["capacity sweep, reserve grid, removal grid and growth-monitored random sequences (native)"],
    assumptions=["'well distributed' keys are realised by the identity hasher (key i in bin i mod n)"],
    require={"capacity_cases": 1000, "removal_cases": 50, "growth_sequences": 50},
    jobs=lambda t: [
        J("capacity", "native", ["c14"], shards=16, budget_s=q(t, 25, 400)),
    ],
)

PLAN["C18"] = dict(
    level="fault_enumeration",
    engines=["panic injected at every callback invocation of a dry run (native, AddressSanitizer)", "panicking compute with 1-3 readers frozen inside the tree bin (per-thread gates)", "free-run rounds in which some callbacks panic while other threads use the map: inspector, linearizability, ledger at quiescence; a worker whose threads all sleep is a verdict (native)"],
    assumptions=["exhaustive over the injection points of each prepared map; the prepared maps are a random sample"],
    require={"injections": 200, "injections_on_map_with_tree_bin": 20, "injections_during_resize_key_bin_already_forwarded": 10, "injections_with_readers_inside_the_tree": 50, "concurrent_rounds_with_injected_panics": 200},
    jobs=lambda t: [
        J("inject", "native", ["c18"], shards=8, budget_s=q(t, 25, 400)),
        J("inject-asan", "asan", ["c18"], shards=8, budget_s=q(t, 30, 400), leaks=False),
        J("concurrent", "native", ["c18", "--part", "concurrent", "--rounds", q(t, 600, 4000000)], shards=8, budget_s=q(t, 20, 300), parallel=8, blocked_is_violation=True),
    ],
)

PLAN["C19"] = dict(
    level="exploration",
    engines=["serde_json round trips and generated inputs, rayon bulk paths with pools of 1/2/4/16 threads (native, AddressSanitizer)"],
    assumptions=["serde_json is the only serde format exercised"],
    require={"inputs_with_repeated_key": 10, "par_from_iter_map": 3, "roundtrip_string_map": 3},
    jobs=lambda t: [
        J("bulk", "native", ["c19"], shards=8, budget_s=q(t, 25, 400), parallel=4),
        J("bulk-asan", "asan", ["c19"], shards=4, budget_s=q(t, 30, 300), parallel=4),
    ],
)

PLAN["C07"] = dict(
    level="exploration",
    engines=["iterator oracle: single-thread interleaving, lock-step with a gated resizing writer, free-run (native)", "orchestrated removal of the last node of a tree bin under an iterator"],
    assumptions=["stability of a key is decided only from definite real-time facts of the recorded history"],
    require={"lockstep_iterators_that_crossed_tables": 5, "stable_keys_verified": 1000, "freerun_rounds_iterating_across_resize": 5, "remover_stopped_with_empty_tree_bin": 1},
    jobs=lambda t: [
        J("iter", "native", ["c07", "--rounds", q(t, 800, 400000)], shards=q(t, 8, 12), budget_s=q(t, 40, 420), parallel=q(t, 8, 12)),
        J("tree-last-node", "native", ["c07", "--part", "tree-last-node"], shards=1, budget_s=20),
    ],
)

PLAN["C08"] = dict(
    level="exploration",
    engines=["closure-pause probes (native)", "conservation of increments under stress (native)", "compute-heavy free-run + linearizability checker (native)"],
    assumptions=["a probe in which the competitor had not started or only reads is counted as missed, never as a violation"],
    require={"probes_competitor_observed_blocked_until_closure_returned": 20, "increments_conserved": 1000, "rmw_calls_whose_closure_ran": 500},
    jobs=lambda t: [
        J("rmw", "native", ["c08", "--rounds", q(t, 1000, 400000)], shards=q(t, 8, 12), budget_s=q(t, 45, 420), parallel=q(t, 8, 12)),
    ],
)

PLAN["C12"] = dict(
    level="fault_enumeration",
    engines=["suspend engine: writer frozen at every instrumented step, read battery on another thread (native, AddressSanitizer)"],
    assumptions=[
        "suspension points are the hook sites (every Atomic load/store/swap/CAS, raw control-word access, lock and window site) of the listed writer scenarios",
        "a non-returning read is a violation only when its thread is asleep (state S) and made no step in 2 s; otherwise inconclusive",
    ],
    require={"suspension_points": 5000, "scenarios": 20, "third_party_writer_parked_behind_reader": 1},
    jobs=lambda t: [
        J("suspend", "native", ["c12"], shards=8, budget_s=q(t, 60, 300), parallel=8),
        J("suspend-asan", "asan", ["c12"], shards=8, budget_s=q(t, 90, 400), parallel=8),
    ],
)

PLAN["C13"] = dict(
    level="exploration",
    engines=["predicate-side race orchestration (native)", "free-run with retain pseudo-operations in the linearizability checker (native)"],
    assumptions=["a race in which the predicate never saw the key or the writer did not run is inconclusive"],
    require={"races_completed_between_inspection_and_removal": 100, "retain_rejections_checked": 50, "retain_force_rejections_checked": 50, "sequential_retain_cases": 500},
    jobs=lambda t: [
        J("retain", "native", ["c13", "--rounds", q(t, 3000, 400000)], shards=q(t, 8, 12), budget_s=q(t, 35, 300), parallel=q(t, 8, 12)),
    ],
)

# ---- Miri litmus programs: (name, argv) ; modes: 0 uniform 1 identity 2 constant 3 samebin 5 mixed 6 splitting
LIT = {
    "tree-mix3": ["mix3", 2, 64, 12, 10],
    "tree-readers": ["readers", 2, 64, 12, 8],
    "tree-samebin-mix4": ["mix4", 3, 64, 11, 8],
    "tree-grow-from-0": ["mix3", 2, 0, 0, 12],
    "list-mix3": ["mix3", 0, 2, 4, 14],
    "list-mix4": ["mix4", 0, 1, 3, 10],
    "init-race": ["init", 0, 0, 0, 6],
    "grow": ["grow", 0, 1, 0, 8],
    "split-trees": ["mix4", 6, 64, 20, 8],
    "tree-lookups-under-inserts": ["treeread", 2, 64, 10, 8],
    "samebin-lookups-under-inserts": ["treeread", 3, 64, 9, 8],
    "unlink-republish": ["unlink", 2, 0, 2, 6],
}


def miri_jobs(names, seeds_each, shards_each):
    return [J(n, "miri", LIT[n], shards=shards_each, seeds=(0, seeds_each), budget_s=60 + seeds_each * 25 // max(1, shards_each)) for n in names]


PLAN["C11"] = dict(
    level="exploration",
    engines=["Miri (deadlock detection, weak-memory emulation, seeded scheduler) on litmus programs", "native tree-bin hammer with a confirmed blocked-state detector (thread asleep + no progress over three samples), a pest thread handing unpark tokens to the writers in every other round, and a lock-state audit after each round", "serial token-passing scheduler with logical deadlock / livelock verdicts and injected spurious park returns (native)", "quiescent lock-state audit of the free-run rounds (C05) and the parked-writer scenario of C12"],
    assumptions=[
        "liveness is restated as bounded progress: a finite program run by Miri's fair seeded scheduler ends, and no execution reaches a state in which every unfinished thread is blocked",
        "Miri explores one schedule per seed; quick is a smoke test, thorough the real exploration (the F6 lost wakeup needed seeds 16 and 131 of 384 on one program)",
    ],
    miri_classes=["deadlock"],
    require={},
    require_prefix={"miri_seeds_": 8, "hammer_writer_parks": 100, "plain_hammer_writer_calls": 10000},
    jobs=lambda t: miri_jobs(["tree-mix3", "tree-readers", "init-race", "grow"], q(t, 12, 256), q(t, 4, 16))
    + miri_jobs(["tree-samebin-mix4", "tree-grow-from-0", "list-mix4"], q(t, 4, 128), q(t, 1, 16))
    + [J("serial", "native", ["c11", "--schedules", q(t, 6000, 4000000)], shards=q(t, 8, 16), budget_s=q(t, 30, 240), parallel=q(t, 8, 16)),
       J("hammer", "native", ["c11", "--part", "hammer", "--rounds", q(t, 40, 100000)], shards=4, budget_s=q(t, 35, 300), parallel=4, blocked_is_violation=True),
       J("hammer-plain", "plain", ["hammer", "--rounds", q(t, 60, 100000)], shards=4, budget_s=q(t, 35, 300), parallel=4, blocked_is_violation=True)]
    + [J("f6-regression-seed16", "miri", LIT["tree-mix3"], shards=1, seeds=(16, 17), budget_s=90, absolute_seeds=True),
       J("f6-regression-seed131", "miri", LIT["tree-mix3"], shards=1, seeds=(131, 132), budget_s=90, absolute_seeds=True)],
)

PLAN["C15"] = dict(
    level="exploration",
    engines=["Miri data-race detector (vector clocks over the orderings the code really uses) with weak-memory emulation on payload-carrying litmus programs"],
    assumptions=[
        "threads of a litmus program communicate only through the map, so any happens-before edge between a payload's initialisation and its read comes from flurry (or seize)",
        "an execution counts only if a reader really obtained a payload written by another thread (cross_thread_* counters)",
        "Miri samples schedules and does not emulate every relaxed behaviour; under Miri num_cpus() is 1, so multi-helper resizes are not exercised here",
        "a reader that registers on a tree bin long after it looked at the lock word needs the writer to run a whole insertion uninterrupted: one program runs with -Zmiri-preemption-rate=0.0001 for that (about one seed in 25 produces the schedule)",
    ],
    miri_classes=["data-race", "ub"],
    require={},
    require_prefix={"miri_seeds_": 8},
    jobs=lambda t: miri_jobs(["list-mix3", "tree-mix3", "grow", "split-trees", "tree-lookups-under-inserts", "unlink-republish"], q(t, 12, 256), q(t, 4, 16))
    + miri_jobs(["tree-samebin-mix4", "list-mix4", "tree-grow-from-0", "init-race", "samebin-lookups-under-inserts"], q(t, 4, 128), q(t, 1, 16))
    # late readers walking links stored under the tree's write lock: needs long uninterrupted runs
    # of the writer, hence the low preemption rate (quick: smoke test; thorough: the exploration)
    + [J("tree-rotations-late-reader", "miri", ["rotread", 10, 600, q(t, 6, 24), 3], shards=q(t, 2, 16), seeds=(0, q(t, 4, 96)), budget_s=q(t, 150, 1500), miriflags="-Zmiri-preemption-rate=0.0001")],
)
