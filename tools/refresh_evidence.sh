#!/bin/bash
# Re-runs every quick check on the (unchanged) tree and validates MANIFEST and evidence files.
cd /verif
git -C /repo diff --quiet || { echo "/repo has uncommitted changes: refusing"; exit 2; }
FAIL=0
for c in $(python3 -c "import json; print(' '.join(x['property_id'] for x in json.load(open('MANIFEST.json'))['checks']))"); do
  T0=$(date +%s); OUT=$(VERIF_SEED=${VERIF_SEED:-1} ./vcheck run $c --tier ${TIER:-quick} 2>/dev/null); rc=$?; T1=$(date +%s)
  echo "$c rc=$rc $((T1-T0))s $(echo "$OUT" | head -1 | cut -c1-150)"
  [ $rc -ne 0 ] && FAIL=1
done
python3-vt - <<'PY'
import json, jsonschema, glob, sys
m = json.load(open('MANIFEST.json'))
jsonschema.validate(m, json.load(open('/root/.vp/MANIFEST.schema.json')))
es = json.load(open('/root/.vp/EVIDENCE.schema.json'))
bad = 0
for c in m['checks']:
    try:
        d = json.load(open(c['evidence_file']))
        jsonschema.validate(d, es)
        assert d['level'] == c['level_claimed']['category'], "level mismatch"
    except Exception as e:
        bad += 1
        print("EVIDENCE INVALID", c['property_id'], str(e)[:200])
print("manifest ok; evidence files invalid:", bad)
sys.exit(1 if bad else 0)
PY
[ $? -ne 0 ] && FAIL=1
exit $FAIL
