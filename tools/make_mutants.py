#!/usr/bin/env python3
"""Generates /verif/mutants/<name>.diff from string replacements against /repo HEAD (own
mutation set, complementing the independently seeded changes under /verif/seeded)."""
import os, subprocess, sys, tempfile, json
M = []
def mut(name, file, old, new, expect, count=1, nth=0, extra=None):
    M.append(dict(name=name, file=file, old=old, new=new, expect=expect, nth=nth, extra=extra or []))

# --- list-bin put: no head re-validation after taking the lock
mut("put-list-no-revalidate", "src/map.rs",
    """                    let current_head = t.bin(bini, guard);
                    if current_head != bin {
                        // nope -- try again from the start
                        continue;
                    }
                    #[cfg(feature = "verif")]
                    crate::verif::hit(crate::verif::WIN_HEAD_VALIDATED, 0, 0);

                    // yes, it is still the head, so we can now "own" the bin
                    // note that there can still be readers in the bin!

                    // TODO: ReservationNode

                    bin_count = 1;
                    let mut p = bin;

                    old_val = loop {""",
    """                    #[cfg(feature = "verif")]
                    crate::verif::hit(crate::verif::WIN_HEAD_VALIDATED, 0, 0);

                    // yes, it is still the head, so we can now "own" the bin
                    // note that there can still be readers in the bin!

                    // TODO: ReservationNode

                    bin_count = 1;
                    let mut p = bin;

                    old_val = loop {""", ["C01", "C05", "C04"])
# --- empty-bin insert with a plain store instead of CAS
mut("put-empty-bin-store-instead-of-cas", "src/map.rs",
    """                match t.cas_bin(bini, bin, node, guard) {
                    Ok(_old_null_ptr) => {""",
    """                match { t.store_bin(bini, node); Ok::<_, crate::reclaim::CompareExchangeError<'_, BinEntry<K, V>>>(bin) } {
                    Ok(_old_null_ptr) => {""", ["C01", "C05"])
# --- transfer: forwarding marker before the new bins (list case)
mut("transfer-forward-before-new-bins", "src/map.rs",
    """                    next_table.store_bin(i, low_bin);
                    #[cfg(feature = "verif")]
                    crate::verif::hit(crate::verif::WIN_TRANSFER_BETWEEN_BINS, verif_table, i);
                    next_table.store_bin(i + n, high_bin);
                    #[cfg(feature = "verif")]
                    crate::verif::hit(crate::verif::WIN_TRANSFER_BEFORE_FORWARD, verif_table, i);
                    table.store_bin(i, table.get_moved(next_table_ptr, guard));
                    #[cfg(feature = "verif")]
                    crate::verif::hit(crate::verif::EV_BIN_FORWARDED, verif_table, i);
                    #[cfg(feature = "verif")]
                    crate::verif::hit(crate::verif::WIN_TRANSFER_AFTER_FORWARD, verif_table, i);

                    // everything up to last_run""",
    """                    table.store_bin(i, table.get_moved(next_table_ptr, guard));
                    #[cfg(feature = "verif")]
                    crate::verif::hit(crate::verif::WIN_TRANSFER_BETWEEN_BINS, verif_table, i);
                    next_table.store_bin(i, low_bin);
                    #[cfg(feature = "verif")]
                    crate::verif::hit(crate::verif::WIN_TRANSFER_BEFORE_FORWARD, verif_table, i);
                    next_table.store_bin(i + n, high_bin);
                    #[cfg(feature = "verif")]
                    crate::verif::hit(crate::verif::EV_BIN_FORWARDED, verif_table, i);
                    #[cfg(feature = "verif")]
                    crate::verif::hit(crate::verif::WIN_TRANSFER_AFTER_FORWARD, verif_table, i);

                    // everything up to last_run""", ["C01", "C07", "C12"])
# --- replaced value never retired (leak)
mut("put-replaced-value-not-retired", "src/map.rs",
    """                                //    `value` field (which is what we swapped), so freeing
                                //    now_garbage is fine.
                                unsafe { guard.retire_shared(now_garbage) };
                            }
                            break Some(current_value);""",
    """                                //    `value` field (which is what we swapped), so freeing
                                //    now_garbage is fine.
                                let _ = now_garbage;
                            }
                            break Some(current_value);""", ["C04"])
# --- tree insert without rebalancing
mut("tree-insert-skip-balance", "src/node.rs",
    """                    self.lock_root(guard, collector);
                    self.root.store(
                        TreeNode::balance_insertion(
                            self.root.load(Ordering::Relaxed, guard),
                            x,
                            guard,
                        ),
                        Ordering::Relaxed,
                    );
                    self.unlock_root();""",
    """                    unsafe { TreeNode::get_tree_node(x) }
                        .red
                        .store(true, Ordering::SeqCst);""", ["C06"])
# --- reader does not wake the waiting writer
mut("tree-reader-no-unpark", "src/node.rs",
    """                        unsafe { waiter.deref() }.unpark();
                        #[cfg(feature = "verif")]""",
    """                        let _ = unsafe { waiter.deref() };
                        #[cfg(feature = "verif")]""", ["C11"])
# --- lookups take the bin lock
mut("get-node-takes-bin-lock", "src/map.rs",
    """        let node = table.find(unsafe { bin.deref() }, h, key, guard);
        if node.is_null() {
            return None;
        }
""",
    """        let _l = match **unsafe { bin.deref() } {
            BinEntry::Node(ref n) => Some(n.lock.lock()),
            BinEntry::Tree(ref t) => Some(t.lock.lock()),
            _ => None,
        };
        let node = table.find(unsafe { bin.deref() }, h, key, guard);
        drop(_l);
        if node.is_null() {
            return None;
        }
""", ["C12"])
# --- resize initiated with rs + 1
mut("add-count-initiates-with-rs-plus-1", "src/map.rs",
    """                .compare_exchange(sc, rs + 2, Ordering::SeqCst, Ordering::Relaxed)
                .is_ok()
            {
                // a resize is needed, but has not yet started""",
    """                .compare_exchange(sc, rs + 1, Ordering::SeqCst, Ordering::Relaxed)
                .is_ok()
            {
                // a resize is needed, but has not yet started""", ["C10", "C05"])
# --- bin publication with Relaxed
mut("store-bin-relaxed", "src/raw/mod.rs",
    """        self.bins[i].store(new, Ordering::Release)""",
    """        self.bins[i].store(new, Ordering::Relaxed)""", ["C15"])
# --- list append with Relaxed
mut("list-append-relaxed", "src/map.rs",
    """                            n.next.store(node, Ordering::SeqCst);
                            break None;""",
    """                            n.next.store(node, Ordering::Relaxed);
                            break None;""", ["C15"])
# --- compute (list bin) locks and unlocks by hand: a panicking closure leaves the bin locked
mut("compute-manual-unlock-skipped-on-panic", "src/map.rs",
    """                    let head_lock = head.lock.lock();
                    #[cfg(feature = "verif")]
                    crate::verif::hit(crate::verif::AFTER_LOCK, crate::verif::addr(&head.lock), 0);

                    // need to check that this is _still_ the head
                    let current_head = t.bin(bini, guard);
                    if current_head != bin {
                        // nope -- try again from the start
                        continue;
                    }
                    #[cfg(feature = "verif")]
                    crate::verif::hit(crate::verif::WIN_HEAD_VALIDATED, 0, 0);

                    // yes, it is still the head, so we can now "own" the bin
                    // note that there can still be readers in the bin!

                    // TODO: ReservationNode
                    bin_count = 1;""",
    """                    std::mem::forget(head.lock.lock());
                    let head_lock = ManualUnlock(&head.lock);
                    #[cfg(feature = "verif")]
                    crate::verif::hit(crate::verif::AFTER_LOCK, crate::verif::addr(&head.lock), 0);

                    // need to check that this is _still_ the head
                    let current_head = t.bin(bini, guard);
                    if current_head != bin {
                        // nope -- try again from the start
                        head_lock.unlock();
                        continue;
                    }
                    #[cfg(feature = "verif")]
                    crate::verif::hit(crate::verif::WIN_HEAD_VALIDATED, 0, 0);

                    // yes, it is still the head, so we can now "own" the bin
                    // note that there can still be readers in the bin!

                    // TODO: ReservationNode
                    bin_count = 1;""", ["C18"],
    extra=[("""                        bin_count += 1;
                    };
                    drop(head_lock);
                }
                BinEntry::Tree(ref tree_bin) => {
                    // bin is non-empty, need to link into it, so we must take the lock
                    #[cfg(feature = "verif")]
                    crate::verif::hit(crate::verif::BEFORE_LOCK, crate::verif::addr(&tree_bin.lock), 0);
                    let bin_lock = tree_bin.lock.lock();""",
            """                        bin_count += 1;
                    };
                    head_lock.unlock();
                }
                BinEntry::Tree(ref tree_bin) => {
                    // bin is non-empty, need to link into it, so we must take the lock
                    #[cfg(feature = "verif")]
                    crate::verif::hit(crate::verif::BEFORE_LOCK, crate::verif::addr(&tree_bin.lock), 0);
                    let bin_lock = tree_bin.lock.lock();"""),
           ("""#[derive(Eq, PartialEq, Debug)]
enum PutResult<'a, T> {""",
            """struct ManualUnlock<'a>(&'a parking_lot::Mutex<()>);
impl ManualUnlock<'_> {
    fn unlock(self) {
        // safety: the lock was taken (and its guard forgotten) right before this was created
        unsafe { self.0.force_unlock() }
    }
}

#[derive(Eq, PartialEq, Debug)]
enum PutResult<'a, T> {""")])
# --- retain passes no observed value
mut("retain-without-observed-value", "src/map.rs",
    """                self.replace_node(k, None, Some(v), guard);""",
    """                let _ = v;
                self.replace_node(k, None, None, guard);""", ["C13"])
# --- traverser off by one
mut("traverser-recover-state-off-by-one", "src/iter/traverser.rs",
    """            if self.index + s.length < n {""",
    """            if self.index + s.length + 1 < n {""", ["C07"])
# --- tree split: low and high swapped
mut("tree-split-swapped", "src/map.rs",
    """                    next_table.store_bin(i, low_bin);
                    #[cfg(feature = "verif")]
                    crate::verif::hit(crate::verif::WIN_TRANSFER_BETWEEN_BINS, verif_table, i);
                    next_table.store_bin(i + n, high_bin);
                    #[cfg(feature = "verif")]
                    crate::verif::hit(crate::verif::WIN_TRANSFER_BEFORE_FORWARD, verif_table, i);
                    table.store_bin(i, table.get_moved(next_table_ptr, guard));
                    #[cfg(feature = "verif")]
                    crate::verif::hit(crate::verif::EV_BIN_FORWARDED, verif_table, i);
                    #[cfg(feature = "verif")]
                    crate::verif::hit(crate::verif::WIN_TRANSFER_AFTER_FORWARD, verif_table, i);

                    // if we did not re-use the old bin""",
    """                    next_table.store_bin(i, high_bin);
                    #[cfg(feature = "verif")]
                    crate::verif::hit(crate::verif::WIN_TRANSFER_BETWEEN_BINS, verif_table, i);
                    next_table.store_bin(i + n, low_bin);
                    #[cfg(feature = "verif")]
                    crate::verif::hit(crate::verif::WIN_TRANSFER_BEFORE_FORWARD, verif_table, i);
                    table.store_bin(i, table.get_moved(next_table_ptr, guard));
                    #[cfg(feature = "verif")]
                    crate::verif::hit(crate::verif::EV_BIN_FORWARDED, verif_table, i);
                    #[cfg(feature = "verif")]
                    crate::verif::hit(crate::verif::WIN_TRANSFER_AFTER_FORWARD, verif_table, i);

                    // if we did not re-use the old bin""", ["C02", "C05"])
# --- check_guard dropped from get
mut("get-without-check-guard", "src/map.rs",
    """        self.check_guard(guard);
        let node = self.get_node(key, guard)?;

        let v = node.value.load(Ordering::SeqCst, guard);
        assert!(!v.is_null());
        // safety: the lifetime of the reference is bound to the guard
        // supplied which means that the memory will not be modified
        // until at least after the guard goes out of scope
        unsafe { v.as_ref().map(|linked| &**linked) }""",
    """        let node = self.get_node(key, guard)?;

        let v = node.value.load(Ordering::SeqCst, guard);
        assert!(!v.is_null());
        // safety: the lifetime of the reference is bound to the guard
        // supplied which means that the memory will not be modified
        // until at least after the guard goes out of scope
        unsafe { v.as_ref().map(|linked| &**linked) }""", ["C09"])

out = "/verif/mutants"
os.makedirs(out, exist_ok=True)
index = []
for m in M:
    src = subprocess.run(["git", "-C", "/repo", "show", f"HEAD:{m['file']}"], capture_output=True, text=True).stdout
    c = src.count(m["old"])
    if c < 1:
        print("NO MATCH", m["name"]); continue
    idx = -1
    for _ in range(m["nth"] + 1):
        idx = src.index(m["old"], idx + 1)
    new = src[:idx] + m["new"] + src[idx + len(m["old"]):]
    for (o2, n2) in m["extra"]:
        assert new.count(o2) == 1, (m["name"], o2[:60])
        new = new.replace(o2, n2)
    with tempfile.TemporaryDirectory() as d:
        a = os.path.join(d, "a"); b = os.path.join(d, "b")
        os.makedirs(os.path.join(a, os.path.dirname(m["file"]))); os.makedirs(os.path.join(b, os.path.dirname(m["file"])))
        open(os.path.join(a, m["file"]), "w").write(src); open(os.path.join(b, m["file"]), "w").write(new)
        diff = subprocess.run(["diff", "-u", os.path.join("a", m["file"]), os.path.join("b", m["file"])], cwd=d, capture_output=True, text=True).stdout
    open(os.path.join(out, m["name"] + ".diff"), "w").write(diff)
    index.append(dict(name=m["name"], file=m["file"], expect=m["expect"]))
    print("ok", m["name"], "matches", c)
json.dump(index, open(os.path.join(out, "index.json"), "w"), indent=1)
