#!/usr/bin/env python3
"""Regenerates /verif/MANIFEST.json from lib/plan.py and lib/manifest_meta.py."""
import json, os, subprocess, sys
ROOT = os.path.dirname(os.path.dirname(os.path.abspath(__file__)))
sys.path.insert(0, os.path.join(ROOT, "lib"))
from plan import PLAN
from manifest_meta import META, NOT_APPLICABLE, ENGINES

hooks = subprocess.run(["git", "-C", "/repo", "log", "--format=%h %s"], capture_output=True, text=True).stdout.splitlines()
hook_commits = [l.split()[0] for l in hooks if l.split(" ", 1)[1].startswith("verif:")]
checks = []
for pid in sorted(PLAN):
    m = META[pid]
    checks.append({
        "property_id": pid,
        "quick_cmd": f"./vcheck run {pid} --tier quick",
        "thorough_cmd": f"./vcheck run {pid} --tier thorough",
        "evidence_file": f"evidence/{pid}.json",
        "replay_cmd_template": "./vcheck replay {path}",
        "engine": m["engine"],
        "level_claimed": {"category": PLAN[pid]["level"], "text": m["text"], "design_ref": f"DESIGN.md §5 {pid}"},
        "level_note": m["note"],
        "technique": m["technique"],
    })
na = list(NOT_APPLICABLE)
all_ids = [json.loads(l)["id"] for l in open(os.path.join(ROOT, "properties.jsonl"))]
for pid in all_ids:
    if pid not in PLAN and pid not in [x["property_id"] for x in na]:
        na.append({"property_id": pid, "reason": "monitor not built yet in this revision of /verif (work in progress; designed in DESIGN.md §5)"})
doc = {
    "version": 1,
    "setup_cmd": "./vcheck setup",
    "hooks": {
        "guard": "cargo feature `verif` of flurry (off by default)",
        "enable": "the harness crate /verif/harness depends on flurry by path (/repo) with features = [\"verif\"], so every check rebuilds flurry from the working tree with the hooks on",
        "baseline_off_cmd": "cd /repo && cargo test --workspace --no-fail-fast --offline",
        "source_commits": hook_commits[::-1],
        "add_only": True,
    },
    "engines": ENGINES,
    "checks": checks,
    "not_applicable": na,
    "notes": "Technique family: runtime monitoring and sanitizers. vcheck exit codes: 0 held on what was observed, 1 VIOLATION, 3 INCONCLUSIVE (never mapped to a violation). Known findings: known-findings.txt.",
}
json.dump(doc, open(os.path.join(ROOT, "MANIFEST.json"), "w"), indent=1)
print("checks:", [c["property_id"] for c in checks], "not_applicable:", [x["property_id"] for x in na])
