#!/usr/bin/env python3
"""Applies each /verif/mutants/<name>.diff to /repo, builds, runs flurry's own suite and the
expected quick checks, reverts. Writes /verif/mutants/results.json.
usage: run_mutants.py [name ...]"""
import json, os, subprocess, sys, time
idx = json.load(open("/verif/mutants/index.json"))
res_path = "/verif/mutants/results.json"
results = json.load(open(res_path)) if os.path.exists(res_path) else {}
only = sys.argv[1:]
env = dict(os.environ, CARGO_NET_OFFLINE="true", VERIF_EVIDENCE_DIR="/tmp/evidence_trials")
for m in idx:
    if only and m["name"] not in only:
        continue
    assert subprocess.run(["git", "-C", "/repo", "diff", "--quiet"]).returncode == 0, "/repo dirty"
    r = subprocess.run(["git", "-C", "/repo", "apply", "-p1", f"/verif/mutants/{m['name']}.diff"])
    if r.returncode != 0:
        print("does not apply", m["name"]); continue
    entry = dict(expect=m["expect"], checks={})
    try:
        b = subprocess.run(["cargo", "build", "--offline", "--all-features"], cwd="/repo", env=env, capture_output=True, text=True)
        entry["builds"] = b.returncode == 0
        if not entry["builds"]:
            print(m["name"], "DOES NOT BUILD", b.stderr[-600:])
        else:
            t = subprocess.run("timeout -k 5 400 cargo test --workspace --offline --no-fail-fast 2>&1 | grep -E '^test result' | awk '{p+=$4; f+=$6} END {print p\" passed \"f\" failed\"}'", shell=True, cwd="/repo", env=env, capture_output=True, text=True)
            entry["suite"] = t.stdout.strip() + " (of 194; fewer = a test binary hung and was killed after 400 s)"
            for c in m["expect"]:
                t0 = time.time()
                v = subprocess.run(["./vcheck", "run", c, "--tier", "quick"], cwd="/verif", env=dict(env, VERIF_SEED="1"), capture_output=True, text=True)
                first = next((l for l in v.stdout.splitlines() if l.startswith(("VIOLATION", "INCONCLUSIVE", "OK", "KNOWN"))), "")
                detail = ""
                ls = v.stdout.splitlines()
                for i, l in enumerate(ls):
                    if l.startswith("VIOLATION") and i + 1 < len(ls):
                        detail = ls[i + 1].strip()[:300]; break
                entry["checks"][c] = dict(rc=v.returncode, first=first[:80], detail=detail, wall=round(time.time() - t0))
                print(m["name"], c, "rc", v.returncode, detail[:160])
    finally:
        subprocess.run(["git", "-C", "/repo", "checkout", "--", "."])
    results[m["name"]] = entry
    json.dump(results, open(res_path, "w"), indent=1)
