#!/bin/bash
# usage: confirm_seed.sh <worktree> <seed-id> <property>
# Confirms a seeded change in its scratch worktree (compiles, existing suite passes, demo fails
# with the change and passes without) and stores it under /verif/seeded/<seed-id>/.
set -u
WT=$1; ID=$2; PROP=$3
OUT=/verif/seeded/$ID
mkdir -p $OUT
cd $WT || exit 2
export CARGO_NET_OFFLINE=true
git diff -- src > $OUT/patch.diff
[ -s $OUT/patch.diff ] || { echo "no src change"; exit 2; }
cp tests/seeded_demo.rs $OUT/seeded_demo.rs 2>/dev/null
cp SEEDED.md $OUT/SEEDED.md 2>/dev/null
echo "== build (all features)"; cargo build --offline --all-features 2>&1 | tail -1
echo "== existing suite with the change (demo excluded)"
mv tests/seeded_demo.rs /tmp/seeded_demo_$ID.rs
SUITE=$(cargo test --workspace --offline --no-fail-fast 2>&1 | grep -E "^test result" | awk '{p+=$4; f+=$6} END {print p" passed "f" failed"}')
mv /tmp/seeded_demo_$ID.rs tests/seeded_demo.rs
echo "$SUITE"
echo "== demo with the change (3 runs)"
FAILS=0
for i in 1 2 3; do timeout 300 cargo test --offline --test seeded_demo >/tmp/demo_$ID.log 2>&1; rc=$?; [ $rc -ne 0 ] && FAILS=$((FAILS+1)); done
echo "failed $FAILS of 3"
echo "== demo without the change (2 runs)"
# NOTE: no `git stash` here: the stash is shared by all worktrees of a repository
git apply -R $OUT/patch.diff
PASSES=0
for i in 1 2; do timeout 300 cargo test --offline --test seeded_demo >/tmp/demo0_$ID.log 2>&1; rc=$?; [ $rc -eq 0 ] && PASSES=$((PASSES+1)); done
git apply $OUT/patch.diff
echo "passed $PASSES of 2"
cat > $OUT/confirm.txt <<EOT
suite_with_change: $SUITE
demo_with_change_failed: $FAILS/3
demo_without_change_passed: $PASSES/2
EOT
cat $OUT/confirm.txt
