#!/usr/bin/env python3
"""usage: record_seed.py <worktree> <seed-id> <property> <origin-note> <check> [<check> ...]
Confirms the seeded change in its worktree (tools/confirm_seed.sh), runs the named quick checks
against it (tools/try_seed.sh) and writes /verif/seeded/<id>/meta.json. The description of the
change is taken from the author's SEEDED.md (sections a and b)."""
import json, os, re, subprocess, sys
wt, sid, prop, origin = sys.argv[1:5]
checks = sys.argv[5:]
d = f"/verif/seeded/{sid}"
r = subprocess.run(["/verif/tools/confirm_seed.sh", wt, sid, prop], capture_output=True, text=True)
print(r.stdout[-400:])
conf = dict(l.strip().split(": ", 1) for l in open(f"{d}/confirm.txt"))
notes = open(f"{d}/SEEDED.md").read() if os.path.exists(f"{d}/SEEDED.md") else ""
def section(txt, letter, nxt):
    m = re.search(rf"\(\s*{letter}\s*\)(.*?)(?=\n#+[^\n]*\(\s*{nxt}\s*\)|\Z)", txt, re.S)
    return re.sub(r"\s+", " ", m.group(1)).strip()[:1500] if m else ""
change = section(notes, "a", "b") or re.sub(r"\s+", " ", notes)[:1500]
needs = section(notes, "b", "c")
t = subprocess.run(["/verif/tools/try_seed.sh", sid] + checks, capture_output=True, text=True)
print(t.stdout)
runs, caught = {}, []
for line in t.stdout.splitlines():
    m = re.match(rf"{re.escape(sid)} (C\d+) rc=(\d+) (\d+)s (.*)", line)
    if m:
        c, rc, secs, rest = m.group(1), int(m.group(2)), m.group(3), m.group(4)
        detail = rest.split("|", 1)[1].strip() if "|" in rest else rest
        runs[c] = ("VIOLATION " if rc == 1 else ("OK " if rc == 0 else f"rc={rc} ")) + f"({secs} s) " + detail[:400]
        if rc == 1:
            caught.append(c)
old = json.load(open(f"{d}/meta.json")) if os.path.exists(f"{d}/meta.json") else {}
extra = {k: old[k] for k in ("strengthening", "first_attempt") if k in old}
if os.environ.get("STRENGTHENING"):
    extra["strengthening"] = os.environ["STRENGTHENING"]
    if "checks_run" in old and "first_attempt" not in extra:
        extra["first_attempt"] = old["checks_run"]
json.dump({**extra, "id": sid, "property": prop, "origin": origin, "change (author's notes, section a)": change, "needs_to_manifest (author's notes, section b)": needs,
           "confirmed": dict(conf, commands=f"tools/confirm_seed.sh {wt} {sid} {prop}"), "checks_run": runs, "caught_by": caught}, open(f"{d}/meta.json", "w"), indent=1)
print("caught_by", caught)
