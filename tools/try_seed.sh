#!/bin/bash
# usage: try_seed.sh <seed-id> <check> [<check> ...]   — applies /verif/seeded/<id>/patch.diff to
# /repo, runs the named quick checks, undoes the patch. Prints one line per check.
ID=$1; shift
P=/verif/seeded/$ID/patch.diff
cd /verif
export VERIF_EVIDENCE_DIR=/tmp/evidence_trials
git -C /repo diff --quiet || { echo "/repo has uncommitted changes"; exit 2; }
git -C /repo apply $P || { echo "patch does not apply"; exit 2; }
for c in "$@"; do
  T0=$(date +%s)
  OUTF=/tmp/try_${ID}_$c.log
  VERIF_SEED=${VERIF_SEED:-1} ./vcheck run $c --tier ${TIER:-quick} > $OUTF 2>&1; rc=$?
  T1=$(date +%s)
  echo "$ID $c rc=$rc $((T1-T0))s $(grep -m1 -E '^(VIOLATION|INCONCLUSIVE|OK|KNOWN)' $OUTF | cut -c1-60) | $(grep -A1 -m1 '^VIOLATION' $OUTF | tail -1 | cut -c1-260)"
done
git -C /repo checkout -- .
